package engines

// Engine "pipe" (properties C05 and C06): the real terminfo screen on an in-memory tty, every goroutine under the
// serialising schedule controller of harness/sched (a separately built binary, one process per case, so that a
// goroutine parked for ever by a real hang dies with its process).
//
//	pipe seed=… feed=c:HEX,z:WxH,e,… exp=… expat=… [feed2=… exp2=…] [feedm=… expm=…] cons=poll|chan:N stop=K pend=0|1
//	     post=PxN[w] [postat=E] [rzs=WxH] draw=M w=name:weight,… ; op ; op ; …
//
// header: the feeder's steps (c: inject a chunk, z: resize the tty and notify, e: make the next Read fail), the
// events the injected bytes stand for (exp, written by the generator from the items it chose, with expat[i] = the
// feeder step that completes item i), the consumer (PollEvent loop or ChannelEvents reader, pausing for good after
// K events, optionally asking HasPendingEvent first), P posting goroutines with N events each, a drawing goroutine,
// scheduling weights.  ops = the director's script: `wait stall` | `wait fill E K` (eventQ/keychan fill level) |
// `wait steps N` | `unpause` | `check` (steady-state exactness) | `suspend` | `resume` | `more` (inject feed2) |
// `check2` (delivery works again after Resume) | `resize W H` (size change + notification at this point of the script) |
// `mid` (inject feedm: input arriving between Suspend and Resume; whether it is delivered after Resume is recorded as a
// tag, never demanded — the property only says delivery works AGAIN) | `fini` (always appended; followed by the
// inertness checks).  postat=E: the posters start once eventQ holds E events (PostEvent at capacity-1 / capacity from
// several goroutines); rzs=WxH: a size change + notification while a Suspend call is in progress.
// `userquit` closes the quit channel the application handed to ChannelEvents while the screen lives on (the consumer then goes
// on with PollEvent): the events that arrive keep the input order, at most the one event ChannelEvents had already dequeued
// is missing.  `disablepaste` / `enablepaste`; `checktail` (the batch of op `more`, injected after everything earlier was
// consumed, is the tail of what was delivered: a complete paste comes out as START text END whatever preceded it).
// `free` releases every goroutine from the controller for the rest of the case (real Go scheduling; the trace ends there),
// `sleep MS` (free running only), `freecheck` (free running only: every injected event arrives, exactly once, in order).
//
// Real-time input (free running only; engine `pipeesc`, C02): `inj HEX` hands bytes to the tty now, `sleep MS`, `esccheck`
// (the input so far ends in an incomplete sequence and nothing more arrives: within 3 s = 60 escape timeouts every byte read
// must have been turned into events — every legal decoding is accepted, bytes still buffered are not), `keycheck DESC` (a
// complete key read after that decodes on its own).
//
// Observation: `ok` (the Lean driver answers `ok` for a well-formed line); a controller problem is printed as
// `ERROR …` and therefore shows up as a correspondence break, never as a finding.  The trace of schedule points is
// returned as a derived line `pipetrace …` that the Lean driver replays against Tcell.Model.Pipeline: every step
// must be a transition of the model (answer `ok`), else the finding class is ref:mismatch.
// Oracle findings (classes) come from harness/sched/oracles.go and are documented there.

import (
	"sync/atomic"
	"bytes"
	"crypto/sha1"
	"encoding/json"
	"fmt"
	"os"
	"os/exec"
	"path/filepath"
	"runtime"
	"strings"
	"sync"
	"time"
	"unicode/utf8"

	"github.com/gdamore/tcell/v2"
	"github.com/gdamore/tcell/v2/terminfo"
	"verif/harness/h"
)

func init() {
	h.Register(&h.Engine{Name: "pipe", Rule: "distinct (scenario, schedule seed) reaching a shutdown with recorded queue fill levels", Gen: genPipe, Exec: execPipe})
	h.Register(&h.Engine{Name: "pipepaste", Rule: "the real screen under the schedule controller: a paste whose end marker is lost (Suspend+Resume or DisablePaste/EnablePaste in the middle of it), then a complete paste in random chunkings; distinct = distinct line; non-trivial = the tail check ran",
		Gen: genPipePaste, Exec: execPipe})
	h.Register(&h.Engine{Name: "pipemouse", Rule: "the real screen under the schedule controller: a press report, EnableMouse / DisableMouse calls with other flags, then drag reports, the release and a buttonless motion, in random chunkings; distinct = distinct line; non-trivial = the tail check ran",
		Gen: genPipeMouse, Exec: execPipe})
	h.Register(&h.Engine{Name: "pipeslow", Rule: "the real screen free running in real time: one read of 12-21 characters ending inside a multi-byte character while the application does not poll for 90-160 ms (event queue full, scanInput blocked beyond the escape timeout), then the application catches up and the rest of the character arrives within 20 ms; distinct = distinct line; non-trivial = the tail check was judged (timing respected)",
		Gen: genPipeSlow, Exec: execPipe})
	h.Register(&h.Engine{Name: "pipeesc", Rule: "the real screen free running in real time: an incomplete escape sequence read in 2-3 pieces 5-20 ms apart, silence, then complete keys; distinct = distinct line; non-trivial = the escape-timeout check ran",
		Gen: genPipeEsc, Exec: execPipe})
}

// ---- the sched binary ----------------------------------------------------------------------------------------

var ppBinOnce sync.Once
var ppBin, ppBinErr string

func ppHasHooks(repo string) bool {
	b, err := os.ReadFile(filepath.Join(repo, "verif_sched.go"))
	return err == nil && bytes.Contains(b, []byte("VerifSetScheduler"))
}

// cleanStaleBins removes the per-process binaries of processes that no longer exist
func cleanStaleBins(dir, prefix string) {
	es, _ := os.ReadDir(dir)
	for _, e := range es {
		n := e.Name()
		if !strings.HasPrefix(n, prefix) {
			continue
		}
		pid := n[len(prefix):]
		if _, err := os.Stat("/proc/" + pid); err != nil {
			os.Remove(filepath.Join(dir, n))
		}
	}
}

func ppBinary() (string, string) {
	ppBinOnce.Do(func() {
		root := os.Getenv("VERIF_ROOT")
		if root == "" {
			root, _ = os.Getwd()
		}
		repo := os.Getenv("VERIF_REPO")
		if repo == "" {
			repo = "/repo"
		}
		dir := filepath.Join(root, ".build", "sched", fmt.Sprintf("%x", sha1.Sum([]byte(repo)))[:12])
		os.MkdirAll(dir, 0o755)
		// a binary of this process's own (never a stale one; the go build cache makes this cheap on an unchanged tree; another
		// check of the same tree may be running ITS binary right now, so nothing shared is removed or replaced)
		cleanStaleBins(dir, "schedbin.")
		out := filepath.Join(dir, fmt.Sprintf("schedbin.%d", os.Getpid()))
		tags := "verif"
		if ppHasHooks(repo) {
			tags = "verif verifsched"
		}
		cmd := exec.Command("go", "build", "-tags", tags, "-o", out, "./sched")
		cmd.Dir = filepath.Join(root, "harness")
		cmd.Env = append(os.Environ(), "GOFLAGS=-mod=mod", "GOPROXY=off", "GOSUMDB=off", "GOTOOLCHAIN=local", "CGO_ENABLED=0")
		o, err := cmd.CombinedOutput()
		if err != nil {
			ppBinErr = "building harness/sched failed: " + err.Error() + "\n" + string(o)
			return
		}
		ppBin = out
	})
	return ppBin, ppBinErr
}

// ppVariant: which of the two shutdown variants the tree under test implements (the schedule points tell): "stopq" when
// scanInput and inputLoop also select on stopQ (fixes/C06-shutdown-selects-stopq.patch), else "pinned".  The variant
// is part of the case line so that the controller and the Lean replay use the matching enabledness rules.
func ppVariant() string {
	repo := os.Getenv("VERIF_REPO")
	if repo == "" {
		repo = "/repo"
	}
	b, err := os.ReadFile(filepath.Join(repo, "tscreen.go"))
	if err == nil && bytes.Contains(b, []byte(`verifPoint("scan-stop"`)) && bytes.Contains(b, []byte(`verifPoint("in-send-stop"`)) {
		return "stopq"
	}
	return "pinned"
}

type ppOut struct {
	Obs      string      `json:"obs"`
	Trace    string      `json:"trace"`
	Findings []h.Finding `json:"findings"`
	Tags     []string    `json:"tags"`
}

func ppRun(payload string) ppOut {
	bin, e := ppBinary()
	if bin == "" {
		return ppOut{Obs: "ERROR " + e}
	}
	cmd := exec.Command(bin, "-line", payload)
	var so, se bytes.Buffer
	cmd.Stdout, cmd.Stderr = &so, &se
	if err := cmd.Start(); err != nil {
		return ppOut{Obs: "ERROR start: " + err.Error()}
	}
	done := make(chan error, 1)
	go func() { done <- cmd.Wait() }()
	select {
	case <-done:
	case <-time.After(5 * time.Minute):
		cmd.Process.Kill()
		return ppOut{Obs: "ERROR sched process did not finish in 5 minutes"}
	}
	var o ppOut
	if err := json.Unmarshal(so.Bytes(), &o); err != nil {
		msg := se.String()
		if len(msg) > 1500 {
			msg = msg[:1500]
		}
		// the process died: a runtime fault inside the library (e.g. close of closed channel, all goroutines asleep)
		cls := "crash"
		if i := strings.Index(msg, "panic: "); i >= 0 {
			cls = "panic"
		} else if strings.Contains(msg, "fatal error:") {
			cls = "fatal"
		}
		return ppOut{Obs: "CRASH", Findings: []h.Finding{{Class: cls, Msg: "the sched process died: " + msg}}}
	}
	return o
}

// ---- parallel pre-execution of the generated cases -------------------------------------------------------------
// Cases that hit a real hang cost the whole hang deadline; the processes mostly sleep, so the generated lines are
// executed by a small pool and Exec only collects the result of its line.

var ppLines []string
var ppPoolOnce sync.Once
var ppRes map[string]chan ppOut

// hang budget shared by the workers (see ppPool)
var ppSlow int32

const ppSlowBudget = 8

func ppPool() {
	ppRes = map[string]chan ppOut{}
	for _, l := range ppLines {
		ppRes[l] = make(chan ppOut, 1)
	}
	if len(ppLines) == 0 {
		return
	}
	if b, _ := ppBinary(); b == "" {
		ppRes = map[string]chan ppOut{} // no workers: every case reports the build error itself (ppRun) instead of waiting
		return
	}
	n := runtime.NumCPU() / 2
	if n > 6 {
		n = 6
	}
	if n < 2 {
		n = 2
	}
	work := make(chan string, len(ppLines))
	seen := map[string]bool{}
	for _, l := range ppLines {
		if !seen[l] {
			seen[l] = true
			work <- l
		}
	}
	close(work)
	for i := 0; i < n; i++ {
		go func() {
			for l := range work {
				// a tree that hangs does so in many cases and every one costs its deadline: after ppSlowBudget
				// cases that ended in a hang / blocked-call finding the remaining cases are not run (they are
				// reported as skipped, never as passed), so that a broken tree is reported in minutes
				if atomic.LoadInt32(&ppSlow) >= ppSlowBudget {
					ppRes[l] <- ppOut{Obs: "SKIP hang budget exhausted: not run"}
					continue
				}
				o := ppRun(strings.TrimPrefix(l, "pipe "))
				for _, f := range o.Findings {
					if strings.HasPrefix(f.Class, "hang:") || strings.HasPrefix(f.Class, "blocks:") {
						atomic.AddInt32(&ppSlow, 1)
						break
					}
				}
				ppRes[l] <- o
			}
		}()
	}
}

func execPipe(line string) h.Result {
	ppPoolOnce.Do(ppPool)
	var o ppOut
	if ch, ok := ppRes[line]; ok {
		o = <-ch
		ch <- o // a duplicate line reads the same result
	} else {
		o = ppRun(strings.TrimPrefix(line, "pipe "))
	}
	res := h.Result{Obs: o.Obs, Findings: o.Findings, Tags: o.Tags}
	for _, t := range o.Tags {
		if strings.Contains(t, "-fill-") || t == "esc-check" || t == "tail-check" || t == "resume-check" {
			res.Nontrivial = true
		}
	}
	if o.Trace != "" {
		// the parser inside the pipeline model follows the tree under test at the known-defect sites (same probe as parse.go)
		res.Derived = []string{"pipetrace " + strings.Replace(o.Trace, " ", variantSuffix()+" ", 1)}
	}
	return res
}

// ---- generation ------------------------------------------------------------------------------------------------

type ppItem struct {
	b    []byte
	desc string
}

var ppTi *terminfo.Terminfo

func ppKeys() []ppItem {
	if ppTi == nil {
		ti, err := terminfo.LookupTerminfo("xterm-256color")
		if err != nil {
			return nil
		}
		ppTi = ti
	}
	ti := ppTi
	var out []ppItem
	add := func(seq string, k tcell.Key) {
		if seq != "" {
			out = append(out, ppItem{[]byte(seq), fmt.Sprintf("K%d.0.0", int(k))})
		}
	}
	add(ti.KeyUp, tcell.KeyUp)
	add(ti.KeyDown, tcell.KeyDown)
	add(ti.KeyLeft, tcell.KeyLeft)
	add(ti.KeyRight, tcell.KeyRight)
	add(ti.KeyHome, tcell.KeyHome)
	add(ti.KeyEnd, tcell.KeyEnd)
	add(ti.KeyF1, tcell.KeyF1)
	add(ti.KeyF5, tcell.KeyF5)
	add(ti.KeyPgUp, tcell.KeyPgUp)
	add(ti.KeyDelete, tcell.KeyDelete)
	return out
}

// ppItems: n input items with the event each stands for; rich = escape sequences, multi-byte runes, mouse, paste,
// focus; otherwise single-byte printable ASCII (any loss of bytes loses whole events, nothing is mis-decoded)
func ppItems(r *h.Rand, n int, rich bool, base int) []ppItem {
	var out []ppItem
	keys := ppKeys()
	used := map[rune]bool{}
	for i := 0; i < n; i++ {
		if !rich {
			c := rune(0x21 + (base+i)%94)
			out = append(out, ppItem{[]byte{byte(c)}, fmt.Sprintf("K256.%d.0", c)})
			continue
		}
		switch k := r.Intn(20); {
		case k < 11:
			var c rune
			for {
				switch r.Intn(4) {
				case 0:
					c = rune(r.Range(0x21, 0x7e))
				case 1:
					c = rune(r.Range(0xa1, 0x7ff))
				case 2:
					c = rune(r.Range(0x800, 0xd7ff))
				default:
					c = rune(r.Range(0x10000, 0x1ffff))
				}
				if !used[c] && utf8.ValidRune(c) {
					break
				}
			}
			used[c] = true
			buf := make([]byte, 4)
			m := utf8.EncodeRune(buf, c)
			out = append(out, ppItem{buf[:m], fmt.Sprintf("K256.%d.0", c)})
		case k < 15 && len(keys) > 0:
			out = append(out, h.Pick(r, keys))
		case k < 17:
			x, y := r.Range(1, 80), r.Range(1, 24)
			out = append(out, ppItem{[]byte(fmt.Sprintf("\x1b[<0;%d;%dM", x, y)), fmt.Sprintf("M%d.%d.1.0", x-1, y-1)})
			out = append(out, ppItem{[]byte(fmt.Sprintf("\x1b[<0;%d;%dm", x, y)), fmt.Sprintf("M%d.%d.0.0", x-1, y-1)})
		case k < 18:
			out = append(out, ppItem{[]byte("\x1b[200~"), "P1"})
			out = append(out, ppItem{[]byte("\x1b[201~"), "P0"})
		default:
			it := ppItem{[]byte("\x1b[O"), "F0"}
			if r.Bool() {
				it = ppItem{[]byte("\x1b[I"), "F1"}
			}
			out = append(out, it)
			if r.Chance(40) { // the same report again (a terminal that repeats it; two windows taking turns)
				out = append(out, it)
			}
		}
	}
	return out
}

// ppFeed turns items into feeder steps: chunks of 1..maxPer items, sometimes cut inside an item; resizes and a read
// error are interleaved.  Returns the steps, the expected descriptors and expat.
func ppFeed(r *h.Rand, items []ppItem, maxPer int, splitPct int, resizes int, errAt int) (steps []string, exp []string, expat []int) {
	type piece struct {
		b    []byte
		ends []int // items completed by this piece
	}
	var pieces []piece
	cur := piece{}
	flush := func() {
		if len(cur.b) > 0 {
			pieces = append(pieces, cur)
			cur = piece{}
		}
	}
	per := r.Range(1, maxPer)
	cnt := 0
	for i, it := range items {
		exp = append(exp, it.desc)
		if len(it.b) > 1 && r.Chance(splitPct) {
			k := r.Range(1, len(it.b)-1)
			cur.b = append(cur.b, it.b[:k]...)
			flush()
			cur.b = append(cur.b, it.b[k:]...)
			cur.ends = append(cur.ends, i)
		} else {
			cur.b = append(cur.b, it.b...)
			cur.ends = append(cur.ends, i)
		}
		cnt++
		if cnt >= per || len(cur.b) > 100 {
			flush()
			per = r.Range(1, maxPer)
			cnt = 0
		}
	}
	flush()
	expat = make([]int, len(items))
	rzAt := map[int]bool{}
	for i := 0; i < resizes && len(pieces) > 0; i++ {
		rzAt[r.Intn(len(pieces))] = true
	}
	nz := 0
	for pi, p := range pieces {
		if pi == errAt {
			steps = append(steps, "e")
		}
		for _, e := range p.ends {
			expat[e] = len(steps)
		}
		steps = append(steps, "c:"+h.Hex(p.b))
		if rzAt[pi] {
			nz++
			steps = append(steps, fmt.Sprintf("z:%dx%d", 81+nz+r.Intn(3)*7, 25+nz))
		}
	}
	if errAt >= len(pieces) && errAt >= 0 {
		steps = append(steps, "e")
	}
	return
}

func ppJoinInts(l []int) string {
	ss := make([]string, len(l))
	for i, v := range l {
		ss[i] = fmt.Sprint(v)
	}
	if len(ss) == 0 {
		return "-"
	}
	return strings.Join(ss, ",")
}
func ppJoin(l []string) string {
	if len(l) == 0 {
		return "-"
	}
	return strings.Join(l, ",")
}

func ppWeights(r *h.Rand) string {
	ws := []int{1, 1, 3, 3, 3, 8, 20}
	var parts []string
	for _, n := range []string{"in", "main", "cons", "feed", "post", "dir", "draw", "ce"} {
		parts = append(parts, fmt.Sprintf("%s:%d", n, h.Pick(r, ws)))
	}
	return strings.Join(parts, ",")
}

func ppCons(r *h.Rand) string {
	if r.Chance(35) {
		return fmt.Sprintf("chan:%d", r.Range(1, 3))
	}
	return "poll"
}

func genPipeOne(r *h.Rand, kind int) string {
	seed := r.Intn(1 << 30)
	hdr := func(steps, exp []string, expat []int, extra string) string {
		return fmt.Sprintf("pipe variant="+ppVariant()+" seed=%d feed=%s exp=%s expat=%s %s w=%s", seed, ppJoin(steps), ppJoin(exp), ppJoinInts(expat), extra, ppWeights(r))
	}
	post := func() string {
		if r.Chance(25) {
			return "post=0"
		}
		s := fmt.Sprintf("post=%dx%d", r.Range(1, 4), r.Range(1, 8))
		if r.Chance(15) {
			s += "w"
		}
		return s
	}
	fillTarget := func() (int, int) {
		if r.Chance(45) {
			return 10, r.Range(0, 10)
		}
		return r.Range(0, 10), 0
	}
	switch kind {
	case 0: // steady: rich input, everything polled to the end
		items := ppItems(r, r.Range(3, 40), true, 0)
		if r.Chance(30) {
			items = append(items, ppItem{[]byte{0x1b}, "K27.0.0"}) // a lone ESC at the very end: the escape timer decides
		}
		steps, exp, expat := ppFeed(r, items, 4, 25, r.Intn(3), -1)
		return hdr(steps, exp, expat, fmt.Sprintf("cons=%s pend=%d %s draw=%d", ppCons(r), r.Intn(2), post(), r.Intn(4))) + " ; check ; fini"
	case 1: // slow consumer: stops after k events, both queues fill, then it resumes: nothing may be lost
		items := ppItems(r, r.Range(25, 70), r.Chance(60), 0)
		steps, exp, expat := ppFeed(r, items, 3, 15, r.Intn(2), -1)
		return hdr(steps, exp, expat, fmt.Sprintf("cons=%s stop=%d pend=%d %s draw=%d", ppCons(r), r.Range(0, 6), r.Intn(2), post(), r.Intn(3))) + " ; wait stall ; unpause ; check ; fini"
	case 2: // Fini at a chosen fill level, consumer stopped (or not)
		items := ppItems(r, r.Range(12, 60), false, 0)
		steps, exp, expat := ppFeed(r, items, 2, 0, r.Intn(2), -1)
		e, k := fillTarget()
		stop := fmt.Sprintf("stop=%d", r.Range(0, 4))
		if r.Chance(25) {
			stop = "stop=-1"
		}
		return hdr(steps, exp, expat, fmt.Sprintf("cons=%s %s %s draw=%d", ppCons(r), stop, post(), r.Intn(3))) + fmt.Sprintf(" ; wait fill %d %d ; fini", e, k)
	case 3: // Suspend at a chosen fill level, then Resume and more input; 1..2 cycles
		items := ppItems(r, r.Range(8, 45), false, 0)
		steps, exp, expat := ppFeed(r, items, 2, 0, r.Intn(2), -1)
		items2 := ppItems(r, r.Range(3, 12), false, 50)
		steps2, exp2, _ := ppFeed(r, items2, 2, 0, 0, -1)
		steps2 = append(steps2, fmt.Sprintf("z:%dx%d", 100+r.Intn(20), 40+r.Intn(5)))
		e, k := fillTarget()
		stop := fmt.Sprintf("stop=%d", r.Range(0, 4))
		if r.Chance(40) {
			stop = "stop=-1"
		}
		// `resume` on a running screen is a refused call ("already engaged": an unconditional SIGCONT handler does that); it
		// must leave the shutdown signalling alone, so the Suspend after it still returns (C06)
		ops := fmt.Sprintf(" ; wait fill %d %d", e, k)
		if r.Chance(25) {
			ops += " ; resume"
		}
		ops += " ; suspend"
		if r.Chance(30) {
			ops += " ; resume ; wait steps " + fmt.Sprint(r.Range(1, 30)) + " ; suspend"
		}
		ops += " ; unpause"
		if r.Chance(25) { // the first attempt to take the terminal back fails in Tty.Start
			ops += " ; resumefail"
			if r.Chance(30) {
				ops += " ; suspend" // a Suspend on the still-suspended screen
			}
		}
		ops += " ; resume"
		if r.Chance(25) {
			ops += " ; resume ; wait steps " + fmt.Sprint(r.Range(1, 30)) + " ; suspend ; resume"
		}
		ops += " ; more ; check2 ; fini"
		if i := strings.Index(ops, " ; resumefail"); i >= 0 && r.Chance(35) {
			ops = ops[:i] + " ; resumefail ; fini" // the application gives up after the failed Resume
		} else if i := strings.Index(ops, " ; suspend"); i >= 0 && r.Chance(15) {
			ops = ops[:i] + " ; suspend ; fini" // Fini on a suspended screen: pollers and ChannelEvents readers are still released
		}
		return hdr(steps, exp, expat, fmt.Sprintf("feed2=%s exp2=%s cons=%s %s %s draw=%d", ppJoin(steps2), ppJoin(exp2), ppCons(r), stop, post(), r.Intn(2))) + ops
	case 5: // PostEvent from several goroutines exactly at capacity-1 / capacity: nil iff enqueued, ErrEventQFull iff not
		const qcap = 10
		np, per := r.Range(2, 4), r.Range(2, 6)
		var items []ppItem
		extra := ""
		if r.Chance(50) {
			// the posters alone fill the queue (consumer paused from the start): the posts at 8, 9 get nil, from 10 on ErrEventQFull
			items = ppItems(r, r.Range(0, 3), false, 0)
			if np*per <= qcap {
				per = qcap/np + 2
			}
			extra = fmt.Sprintf("cons=%s stop=0 post=%dx%d draw=0", ppCons(r), np, per)
		} else {
			// input fills the queue up to cap-2 / cap-1 / cap, then the posters are let go and compete with scanInput
			items = ppItems(r, r.Range(12, 25), false, 0)
			extra = fmt.Sprintf("cons=%s stop=%d post=%dx%d postat=%d draw=0", ppCons(r), r.Range(0, 2), np, per, qcap-r.Intn(3))
		}
		steps, exp, expat := ppFeed(r, items, 2, 0, 0, -1)
		return hdr(steps, exp, expat, extra) + " ; wait stall ; unpause ; check ; fini"
	case 6: // a resize notification while the event queue is exactly full (or one below / blocked above) and nobody polls
		const qcap = 10
		k := r.Range(0, 4)
		cons, absorbed := "poll", k
		if r.Chance(35) {
			cn := r.Range(1, 3)
			cons = fmt.Sprintf("chan:%d", cn)
			absorbed = k + cn + 1 // delivered + in the channel + the one ChannelEvents holds
		}
		n := absorbed + qcap + []int{0, 0, 0, 0, -1, 1, 2}[r.Intn(7)]
		items := ppItems(r, n, false, 0)
		steps, exp, expat := ppFeed(r, items, 2, 0, 0, -1)
		ops := fmt.Sprintf(" ; wait stall ; resize %d %d", 90+r.Intn(9), 30+r.Intn(5))
		if r.Chance(30) {
			ops += fmt.Sprintf(" ; resize %d %d", 100+r.Intn(9), 40+r.Intn(5))
		}
		ops += " ; wait stall ; unpause ; check ; fini"
		return hdr(steps, exp, expat, fmt.Sprintf("cons=%s stop=%d post=0 draw=0", cons, k)) + ops
	case 7: // Suspend with a resize notification while the call is in progress and input arriving while suspended
		items := ppItems(r, r.Range(8, 40), false, 0)
		steps, exp, expat := ppFeed(r, items, 2, 0, r.Intn(2), -1)
		itemsM := ppItems(r, r.Range(1, 8), false, 40)
		stepsM, expM, _ := ppFeed(r, itemsM, 2, 0, 0, -1)
		items2 := ppItems(r, r.Range(3, 12), false, 70)
		steps2, exp2, _ := ppFeed(r, items2, 2, 0, 0, -1)
		steps2 = append(steps2, fmt.Sprintf("z:%dx%d", 100+r.Intn(20), 40+r.Intn(5)))
		e, k := fillTarget()
		stop := fmt.Sprintf("stop=%d", r.Range(0, 4))
		if r.Chance(40) {
			stop = "stop=-1"
		}
		rzs := ""
		if r.Chance(70) {
			rzs = fmt.Sprintf(" rzs=%dx%d", 85+r.Intn(10), 27+r.Intn(8))
		}
		ops := fmt.Sprintf(" ; wait fill %d %d ; suspend ; mid ; unpause ; resume ; more ; check2 ; fini", e, k)
		return hdr(steps, exp, expat, fmt.Sprintf("feed2=%s exp2=%s feedm=%s expm=%s cons=%s %s %s%s draw=%d", ppJoin(steps2), ppJoin(exp2), ppJoin(stepsM), ppJoin(expM), ppCons(r), stop, post(), rzs, r.Intn(2))) + ops
	case 8: // free running (no serialising controller): single-byte input, a consumer that stops for a while, posters
		items := ppItems(r, r.Range(30, 150), false, 0)
		steps, exp, expat := ppFeed(r, items, 3, 0, 0, -1)
		ps := "post=0"
		if r.Chance(50) {
			ps = fmt.Sprintf("post=%dx%d", r.Range(1, 4), r.Range(2, 8))
		}
		return hdr(steps, exp, expat, fmt.Sprintf("cons=%s stop=%d %s draw=0", ppCons(r), r.Range(0, 12), ps)) +
			fmt.Sprintf(" ; free ; sleep %d ; unpause ; freecheck ; fini", r.Range(5, 40))
	case 9: // a paste whose end marker is lost (Suspend+Resume, or DisablePaste/EnablePaste, in the middle of it), then a complete paste
		items := ppItems(r, r.Range(0, 6), r.Chance(40), 0)
		items = append(items, ppItem{[]byte("\x1b[200~"), "P1"})
		items = append(items, ppItems(r, r.Range(0, 8), false, 20)...)
		if r.Chance(25) { // the truncated paste may itself follow a complete one
			items = append([]ppItem{{[]byte("\x1b[200~"), "P1"}, {[]byte("x"), "K256.120.0"}, {[]byte("\x1b[201~"), "P0"}}, items...)
		}
		steps, exp, expat := ppFeed(r, items, 3, 20, 0, -1)
		var items2 []ppItem
		items2 = append(items2, ppItems(r, r.Range(0, 2), false, 40)...)
		items2 = append(items2, ppItem{[]byte("\x1b[200~"), "P1"})
		items2 = append(items2, ppItems(r, r.Range(1, 8), r.Chance(30), 50)...)
		items2 = append(items2, ppItem{[]byte("\x1b[201~"), "P0"})
		items2 = append(items2, ppItems(r, r.Range(0, 2), false, 70)...)
		steps2, exp2, _ := ppFeed(r, items2, 4, 20, 0, -1)
		ops := " ; wait stall ; suspend ; resume ; more ; check2 ; fini"
		switch r.Intn(4) {
		case 0:
			ops = " ; wait stall ; disablepaste ; enablepaste ; more ; checktail ; fini"
		case 1:
			ops = " ; wait stall ; suspend ; resume ; wait stall ; suspend ; resume ; more ; check2 ; fini"
		}
		return hdr(steps, exp, expat, fmt.Sprintf("feed2=%s exp2=%s cons=%s stop=-1 pend=%d post=0 draw=%d", ppJoin(steps2), ppJoin(exp2), ppCons(r), r.Intn(2), r.Intn(2))) + ops
	case 12: // C12: a press, then mode-changing calls (EnableMouse with other flags, DisableMouse+EnableMouse), then drags and the release
		x, y := r.Range(1, 80), r.Range(1, 24)
		btn := h.Pick(r, []int{0, 1, 2}) // left, middle, right in xterm numbering
		mask := map[int]int{0: 1, 1: 4, 2: 2}[btn] // tcell: Button1 = 1, Button3 (middle) = 4, Button2 (right) = 2
		mods := h.Pick(r, []int{0, 0, 4, 8, 16})    // shift 4, meta 8, ctrl 16 in the report; tcell ModShift 1, ModCtrl 2, ModAlt 4
		tm := map[int]int{0: 0, 4: 1, 8: 4, 16: 2}[mods]
		items := ppItems(r, r.Range(0, 4), false, 0)
		items = append(items, ppItem{[]byte(fmt.Sprintf("\x1b[<%d;%d;%dM", btn+mods, x, y)), fmt.Sprintf("M%d.%d.%d.%d", x-1, y-1, mask, tm)})
		steps, exp, expat := ppFeed(r, items, 3, 20, 0, -1)
		var items2 []ppItem
		for k := r.Range(1, 4); k > 0; k-- {
			x, y = r.Range(1, 80), r.Range(1, 24)
			items2 = append(items2, ppItem{[]byte(fmt.Sprintf("\x1b[<%d;%d;%dM", 32+btn+mods, x, y)), fmt.Sprintf("M%d.%d.%d.%d", x-1, y-1, mask, tm)})
		}
		items2 = append(items2, ppItem{[]byte(fmt.Sprintf("\x1b[<%d;%d;%dm", btn+mods, x, y)), fmt.Sprintf("M%d.%d.0.%d", x-1, y-1, tm)})
		items2 = append(items2, ppItem{[]byte(fmt.Sprintf("\x1b[<%d;%d;%dM", 35, x, y)), fmt.Sprintf("M%d.%d.0.0", x-1, y-1)}) // motion, no button
		items2 = append(items2, ppItems(r, r.Range(0, 2), false, 70)...)
		steps2, exp2, _ := ppFeed(r, items2, 4, 20, 0, -1)
		mid := h.Pick(r, []string{"enablemouse 7", "enablemouse 3", "enablemouse 1 ; enablemouse 7", "disablemouse ; enablemouse", "enablemouse", "enablemouse 6", "", "disablemouse", "disablemouse"})
		ops := " ; wait stall"
		if mid != "" {
			ops += " ; " + mid
		}
		ops += " ; more ; checktail ; fini"
		return hdr(steps, exp, expat, fmt.Sprintf("feed2=%s exp2=%s cons=%s stop=-1 pend=%d post=0 draw=%d", ppJoin(steps2), ppJoin(exp2), ppCons(r), r.Intn(2), r.Intn(2))) + ops
	case 13: // C11 / C05, real time: one read fills the event queue while the application is not polling for longer than the
		// escape timeout and ends inside a multi-byte character; the application catches up; the rest of the character arrives
		k := r.Range(0, 3)
		n := k + 10 + r.Range(2, 8)
		var chunk []byte
		var exp []string
		var expat []int
		for i := 0; i < n; i++ {
			c := byte(0x21 + (i*7+int(seed))%94)
			chunk = append(chunk, c)
			exp = append(exp, fmt.Sprintf("K256.%d.0", c))
			expat = append(expat, 0)
		}
		ch := h.Pick(r, []rune{0xe9, 0x20ac, 0x4e16, 0x1f600, 0x3b1, 0x10348, 0x7ff, 0x800})
		enc := []byte(string(ch))
		cut := r.Range(1, len(enc)-1)
		chunk = append(chunk, enc[:cut]...)
		ops := fmt.Sprintf(" ; free ; sleep %d ; unpause ; sleep 15", r.Range(90, 160))
		rest := enc[cut:]
		if len(rest) > 1 && r.Bool() { // the rest in two reads
			ops += fmt.Sprintf(" ; inj %s ; sleep 3 ; inj %s", h.Hex(rest[:1]), h.Hex(append(append([]byte{}, rest[1:]...), 'A')))
		} else {
			ops += fmt.Sprintf(" ; inj %s", h.Hex(append(append([]byte{}, rest...), 'A')))
		}
		ops += fmt.Sprintf(" ; tailwait K256.%d.0,K256.65.0 ; fini", ch)
		return hdr([]string{"c:" + h.Hex(chunk)}, exp, expat, fmt.Sprintf("cons=poll stop=%d pend=0 post=0 draw=0", k)) + ops
	case 14: // C12: the window changes size while the screen is suspended; after Resume, before any Show, mouse reports are
		// clipped into the screen the terminal has NOW (grown: a cell beyond the old size; shrunk: a cell beyond the new one)
		items := ppItems(r, r.Range(1, 4), false, 0)
		steps, exp, expat := ppFeed(r, items, 3, 0, 0, -1)
		nw, nh := 100+r.Intn(20), 30+r.Intn(10)
		if r.Bool() {
			nw, nh = 40+r.Intn(20), 10+r.Intn(8)
		}
		clip := func(v, n int) int {
			if v > n-1 {
				return n - 1
			}
			return v
		}
		var items2 []ppItem
		for k := r.Range(2, 4); k > 0; k-- {
			x, y := r.Range(1, 130), r.Range(1, 45)
			items2 = append(items2, ppItem{[]byte(fmt.Sprintf("\x1b[<0;%d;%dM", x, y)), fmt.Sprintf("M%d.%d.1.0", clip(x-1, nw), clip(y-1, nh))})
			items2 = append(items2, ppItem{[]byte(fmt.Sprintf("\x1b[<0;%d;%dm", x, y)), fmt.Sprintf("M%d.%d.0.0", clip(x-1, nw), clip(y-1, nh))})
		}
		items2 = append(items2, ppItems(r, 1, false, 70)...)
		steps2, exp2, _ := ppFeed(r, items2, 4, 0, 0, -1)
		ops := fmt.Sprintf(" ; wait stall ; suspend ; resize %d %d ; resume ; more ; check2 ; fini", nw, nh)
		return hdr(steps, exp, expat, fmt.Sprintf("feed2=%s exp2=%s cons=%s stop=-1 pend=0 post=0 draw=0", ppJoin(steps2), ppJoin(exp2), ppCons(r))) + ops
	case 10: // real time: an incomplete sequence read in 2..3 pieces a few ms apart, then silence; then a complete key
		pre := h.Pick(r, [][]string{{"1b", "5b"}, {"1b", "4f"}, {"1b", "1b"}, {"1b", "5b", "31"}, {"1b", "5b31", "3b"}, {"1b5b", "31"}, {"1b", "5b3c"}, {"1b", "5b", "32"},
			{"1b", "5b32", "30"}, {"1b", "5d"}, {"1b", "50"}, {"1b5b31", "3b35"}, {"1b", "1b", "5b"}, {"1b", "5b", "3c33"}, {"61", "1b", "5b"}, {"1b", "5b33"}})
		ops := " ; free"
		for i, b := range pre {
			if i > 0 {
				ops += fmt.Sprintf(" ; sleep %d", r.Range(5, 20))
			}
			ops += " ; inj " + b
		}
		ops += " ; esccheck"
		for k := r.Range(1, 2); k > 0; k-- {
			if r.Chance(50) {
				c := r.Range('A', 'Z')
				ops += fmt.Sprintf(" ; inj %02x ; keycheck K256.%d.0", c, c)
			} else {
				key := h.Pick(r, ppKeys())
				ops += fmt.Sprintf(" ; inj %s ; keycheck %s", h.Hex(key.b), key.desc)
			}
		}
		return hdr(nil, nil, nil, "cons=poll stop=-1 pend=0 post=0 draw=0") + ops + " ; fini"
	case 11: // the application closes the quit channel of ChannelEvents on a live screen (forward blocked or not), then polls
		cn := r.Range(1, 3)
		k := r.Range(0, 3)
		absorbed := k + cn + 1 // delivered + in the channel + the one ChannelEvents holds
		n := absorbed + r.Range(1, 8)
		if r.Chance(20) {
			n = absorbed + r.Range(9, 25) // the queue is full as well
		}
		items := ppItems(r, n, false, 0)
		steps, exp, expat := ppFeed(r, items, 2, 0, 0, -1)
		ops := " ; wait stall ; userquit ; wait stall ; unpause ; check ; fini"
		stop := fmt.Sprintf("stop=%d", k)
		if r.Chance(25) { // the consumer keeps reading: the quit arrives at some point of a running pipeline
			stop = "stop=-1"
			ops = fmt.Sprintf(" ; wait steps %d ; userquit ; check ; fini", r.Range(1, 60))
		}
		return hdr(steps, exp, expat, fmt.Sprintf("cons=chan:%d %s pend=0 post=0 draw=0", cn, stop)) + ops
	default: // a read error somewhere, then steady check or a shutdown at a fill level
		items := ppItems(r, r.Range(5, 40), false, 0)
		nchunksGuess := len(items)/2 + 1
		steps, exp, expat := ppFeed(r, items, 2, 0, 0, r.Intn(nchunksGuess+1))
		stop := "stop=-1"
		if r.Chance(50) {
			stop = fmt.Sprintf("stop=%d", r.Range(0, 5))
		}
		ops := " ; check ; fini"
		switch r.Intn(3) {
		case 1:
			e, k := fillTarget()
			ops = fmt.Sprintf(" ; wait fill %d %d ; fini", e, k)
		case 2:
			ops = " ; wait stall ; suspend ; unpause ; resume ; wait stall ; fini"
		}
		return hdr(steps, exp, expat, fmt.Sprintf("cons=%s %s %s", ppCons(r), stop, post())) + ops
	}
}

func genPipe(g *h.Gen) {
	n := g.N(400, 3000)
	// directed cases first: the two shutdown situations the design names, at every fill level of the event queue
	for i := 0; i < n; i++ {
		kind := []int{0, 1, 2, 3, 2, 3, 0, 4, 5, 6, 7, 8}[i%12]
		g.Emit("%s", genPipeOne(g.R, kind))
	}
	// the application's own quit channel closed on a live screen; a paste that loses its end marker
	for i := g.N(40, 300); i > 0; i-- {
		g.Emit("%s", genPipeOne(g.R, 11))
	}
	for i := g.N(10, 100); i > 0; i-- {
		g.Emit("%s", genPipeOne(g.R, 9))
	}
	// mouse reports around mode-changing calls (a report that arrives after DisableMouse is still an event, a complete one)
	for i := g.N(12, 100); i > 0; i-- {
		g.Emit("%s", genPipeOne(g.R, 12))
	}
	ppLines = append(ppLines, g.Lines...)
}

// engine pipepaste (C11): bracketed paste through the real screen's life cycle
func genPipePaste(g *h.Gen) {
	for i := g.N(24, 400); i > 0; i-- {
		g.Emit("%s", genPipeOne(g.R, 9))
	}
	ppLines = append(ppLines, g.Lines...)
}

// engine pipemouse (C12): the button state machine across mode-changing calls on the live screen
func genPipeMouse(g *h.Gen) {
	for i := g.N(30, 400); i > 0; i-- {
		g.Emit("%s", genPipeOne(g.R, 12))
	}
	for i := g.N(12, 200); i > 0; i-- {
		g.Emit("%s", genPipeOne(g.R, 14))
	}
	ppLines = append(ppLines, g.Lines...)
}

// engine pipeslow (C11): text that meets back-pressure in the middle of a character, in real time
func genPipeSlow(g *h.Gen) {
	for i := g.N(16, 300); i > 0; i-- {
		g.Emit("%s", genPipeOne(g.R, 13))
	}
	ppLines = append(ppLines, g.Lines...)
}

// engine pipeesc (C02): the escape timeout in real time
func genPipeEsc(g *h.Gen) {
	for i := g.N(18, 200); i > 0; i-- {
		g.Emit("%s", genPipeOne(g.R, 10))
	}
	ppLines = append(ppLines, g.Lines...)
}
