package engines

import (
	"bytes"
	"fmt"
	"reflect"
	"sort"
	"strconv"
	"strings"

	"github.com/gdamore/tcell/v2"
	tenc "github.com/gdamore/tcell/v2/encoding"
	"github.com/gdamore/tcell/v2/terminfo"
	_ "github.com/gdamore/tcell/v2/terminfo/base"
	_ "github.com/gdamore/tcell/v2/terminfo/extended"
	"verif/harness/h"
)

// Engines of the input-parser cluster (C02, C03, C11, C12).  All drive the real collectEventsFromInput through
// tcell.VerifParser.Feed (build tag verif) and print canonical events.
//
//	parse | parsechunk  <entry> <charset> <w> <h> <chunkhex>:<0|1> …      (see lean/Driver/Parse.lean)
//	keyseq              <entry> <kind> <expire> <hex1> <hex2>             bytes = [ESC if kind=alt] ++ hex1 ++ hex2, one Feed
//	keytable            <entry>                                            the built key table, sorted
//
// Oracles (written from the property statements / xterm ctlseqs, not from tscreen.go):
//	parse      C12: when the whole input tokenises as SGR-1006 / X11 mouse reports, the events must be what an
//	           independent decoder + press/drag/release state machine says.
//	keyseq     C03: capability strings decode to an assigned key, xterm modifier parameters, control bytes, Alt prefix,
//	           lone ESC, DEL, concatenation; keytable: prefix-freeness of the built table.
//	parsechunk C02: the same bytes fed in one read give the same events (classes chunk-*); a stream of recognised
//	           sequences decodes to the concatenation of what each sequence decodes to (classes swallow-*), parsechunk.go.

func init() {
	tenc.Register()
	h.Register(&h.Engine{Name: "parse", Rule: "distinct input lines reaching ≥1 decoded event", Gen: genParse, Exec: func(l string) h.Result { return execParse(l, false) }})
	h.Register(&h.Engine{Name: "parsechunk", Rule: "distinct partitioned inputs", Gen: genParseChunk, Exec: func(l string) h.Result { return execParse(l, true) }})
	h.Register(&h.Engine{Name: "keyseq", Rule: "distinct (entry, kind, sequence)", Gen: genKeySeq, Exec: execKeySeq})
	h.Register(&h.Engine{Name: "keytable", Rule: "entries (exhaustive)", Gen: genKeyTable, Exec: execKeyTable})
}

// ---------------------------------------------------------------------------------------------------------------
// shared helpers

var pEntries map[string]*terminfo.Terminfo

func entries() map[string]*terminfo.Terminfo {
	if pEntries == nil {
		pEntries = terminfo.VerifEntries()
	}
	return pEntries
}

// variant of the known-defect sites the tree under test implements, probed on the real code once per process:
// "+x11fix" when an X11 motion report without a press no longer decodes to a wheel event, "+clipfix" when an OSC 52
// reply followed by more data in the same read still yields its clipboard event, "+sgrfix" when a byte that is no
// part of an SGR mouse report is no longer skipped by parseSgrMouse, "+keycaps" when the key
// capabilities KeyClear / KeyShfInsert / KeyShfDelete of an entry are in its key table.  The suffix is appended to the
// entry name on generated case lines so that the Lean driver runs the matching model variant.
var pVariant *string

func variantSuffix() string {
	if pVariant != nil {
		return *pVariant
	}
	s := ""
	if ti := entries()["xterm-direct"]; ti != nil {
		_, all, _ := runFeeds(ti, "UTF-8", 80, 24, []feed{{[]byte("\x1b[M\x40!!"), false}})
		if len(all) == 1 && all[0] == "M.0.0.0.0" {
			s += "+x11fix"
		}
	}
	if ti := entries()["xterm-256color"]; ti != nil {
		// OSC 52 reply followed by one more byte in the same read: the repaired parser cuts at the terminator it found
		_, all, _ := runFeeds(ti, "UTF-8", 80, 24, []feed{{[]byte("\x1b]52;c;QQ==\ax"), false}})
		if len(all) == 2 && all[0] == "C.41" {
			s += "+clipfix"
		}
		// a byte that belongs to no SGR report in front of `[<0;5;5M`: the repaired parser (default: return false, false)
		// rejects, so nothing decodes to a mouse event; the pinned one skips the `q` and reports a click
		_, all, _ = runFeeds(ti, "UTF-8", 80, 24, []feed{{[]byte("\x1bq[<0;5;5M"), true}})
		mouse := false
		for _, e := range all {
			mouse = mouse || strings.HasPrefix(e, "M.")
		}
		if !mouse {
			s += "+sgrfix"
		}
	}
	for _, ti := range entries() {
		tb := tcell.VerifKeyTable(ti)
		for _, c := range []string{ti.KeyClear, ti.KeyShfInsert, ti.KeyShfDelete} {
			if _, ok := tb[c]; ok && c != "" && !strings.Contains(s, "keycaps") && ti.Modifiers != terminfo.ModifiersXTerm {
				s += "+keycaps"
			}
		}
	}
	pVariant = &s
	return s
}

// entryOf resolves `<name>[+flags]`; stale is true when the flags on the line are not those of the tree under test
// (a replay recorded on another tree): the oracle still runs, the model comparison is skipped.
func entryOf(tok string) (ti *terminfo.Terminfo, stale bool) {
	name, flags := tok, ""
	if i := strings.Index(tok, "+"); i >= 0 {
		name, flags = tok[:i], tok[i:]
	}
	return entries()[name], flags != variantSuffix()
}

// primary names (one per distinct entry), sorted
func primaryNames() []string {
	seen := map[*terminfo.Terminfo]bool{}
	var out []string
	var all []string
	for n := range entries() {
		all = append(all, n)
	}
	sort.Strings(all)
	for _, n := range all {
		ti := entries()[n]
		if ti.Name == n && !seen[ti] {
			seen[ti] = true
			out = append(out, n)
		}
	}
	return out
}

func showEv(ev tcell.Event) string {
	switch e := ev.(type) {
	case *tcell.EventKey:
		return fmt.Sprintf("K.%d.%d.%d", int(e.Key()), int(e.Rune()), int(e.Modifiers()))
	case *tcell.EventMouse:
		x, y := e.Position()
		return fmt.Sprintf("M.%d.%d.%d.%d", x, y, int(e.Buttons()), int(e.Modifiers()))
	case *tcell.EventPaste:
		if e.Start() {
			return "P.1"
		}
		return "P.0"
	case *tcell.EventFocus:
		if e.Focused {
			return "F.1"
		}
		return "F.0"
	case *tcell.EventClipboard:
		return "C." + h.Hex(e.Data())
	}
	return fmt.Sprintf("?%T", ev)
}

func showEvs(evs []tcell.Event) []string {
	out := make([]string, len(evs))
	for i, e := range evs {
		out[i] = showEv(e)
	}
	return out
}

// charset token: "utf8" or "tbl:<name>:<runes of 0x80..0xff>"
func charsetToken(name string) string {
	if strings.EqualFold(name, "UTF-8") {
		return "utf8"
	}
	enc := tcell.GetEncoding(name)
	if enc == nil {
		return "utf8"
	}
	d := enc.NewDecoder()
	rs := make([]string, 128)
	for i := 0; i < 128; i++ {
		out, err := d.Bytes([]byte{byte(128 + i)})
		r := rune(0xFFFD)
		if err == nil {
			if rr := []rune(string(out)); len(rr) == 1 {
				r = rr[0]
			}
		}
		rs[i] = strconv.Itoa(int(r))
	}
	return "tbl:" + name + ":" + strings.Join(rs, ",")
}

func charsetName(tok string) string {
	if tok == "utf8" {
		return "UTF-8"
	}
	p := strings.SplitN(tok, ":", 3)
	if len(p) == 3 {
		return p[1]
	}
	return "UTF-8"
}

type feed struct {
	b      []byte
	expire bool
}

func parseFeeds(toks []string) []feed {
	var fs []feed
	for _, t := range toks {
		p := strings.SplitN(t, ":", 2)
		if len(p) != 2 {
			continue
		}
		fs = append(fs, feed{h.Unhex(p[0]), p[1] == "1"})
	}
	return fs
}

// runFeeds executes the feeds on a fresh parser; returns per-feed observation tokens, all events, final leftover
func runFeeds(ti *terminfo.Terminfo, cs string, w, hh int, fs []feed) ([]string, []string, int) {
	p := tcell.NewVerifParser(ti, cs, w, hh)
	var obs, all []string
	left := 0
	for _, f := range fs {
		evs, l := p.Feed(f.b, f.expire)
		left = l
		se := showEvs(evs)
		all = append(all, se...)
		s := "-"
		if len(se) > 0 {
			s = strings.Join(se, ",")
		}
		obs = append(obs, fmt.Sprintf("%s/%d", s, l))
	}
	return obs, all, left
}

// ---------------------------------------------------------------------------------------------------------------
// independent xterm mouse protocol decoder (ctlseqs, "Mouse Tracking"): SGR 1006 `CSI < b ; x ; y M|m`,
// X11 `CSI M Cb Cx Cy` with 32 added to each value; low two bits 0,1,2 = left, middle, right, 3 = release (X11);
// +4 shift, +8 meta, +16 control, +32 motion, +64 wheel (64 up, 65 down), +128 buttons 8-11.

type mreport struct {
	sgr     bool
	code    int // button code with the X11 offset removed
	x, y    int // 1-based as reported
	release bool
	valid   bool // X11 with Cb < 32 is not a report xterm can send
}

func tokenizeMouse(s []byte) ([]mreport, bool) {
	reps, escs, ok := tokenizeMouseEsc(s, false)
	return reps, ok && len(escs) == 0
}

// tokenizeMouseEsc: as tokenizeMouse; with loneEsc every report may be preceded by ESC bytes that are not part of it (an
// Esc key press or an Alt prefix typed just before the terminal sent the report): escs = the offsets of those bytes.
func tokenizeMouseEsc(s []byte, loneEsc bool) ([]mreport, []int, bool) {
	var out []mreport
	var escs []int
	i := 0
	num := func() (int, bool) {
		neg := false
		if i < len(s) && s[i] == '-' {
			neg = true
			i++
		}
		st := i
		v := 0
		for i < len(s) && s[i] >= '0' && s[i] <= '9' && i-st < 17 {
			v = v*10 + int(s[i]-'0')
			i++
		}
		if i == st {
			return 0, false
		}
		if neg {
			v = -v
		}
		return v, true
	}
	for i < len(s) {
		for loneEsc && s[i] == 0x1b && i+1 < len(s) && (s[i+1] == 0x1b || s[i+1] == 0x9b) {
			escs = append(escs, i)
			i++
		}
		if s[i] == 0x1b && i+1 < len(s) && s[i+1] == '[' {
			i += 2
		} else if s[i] == 0x9b {
			i++
		} else {
			return nil, nil, false
		}
		if i >= len(s) {
			return nil, nil, false
		}
		switch s[i] {
		case '<':
			i++
			b, ok := num()
			if !ok || i >= len(s) || s[i] != ';' {
				return nil, nil, false
			}
			i++
			x, ok := num()
			if !ok || i >= len(s) || s[i] != ';' {
				return nil, nil, false
			}
			i++
			y, ok := num()
			if !ok || i >= len(s) || (s[i] != 'M' && s[i] != 'm') {
				return nil, nil, false
			}
			out = append(out, mreport{sgr: true, code: b, x: x, y: y, release: s[i] == 'm', valid: true})
			i++
		case 'M':
			if i+3 >= len(s) {
				return nil, nil, false
			}
			out = append(out, mreport{code: int(s[i+1]) - 32, x: int(s[i+2]) - 32, y: int(s[i+3]) - 32, valid: s[i+1] >= 32})
			i += 4
		default:
			return nil, nil, false
		}
	}
	return out, escs, len(out) > 0
}

type mexpect struct {
	x, y, mods int
	buttons    int // -1: the statement does not fix the buttons of this report
	motion     bool
	// forbid: buttons the event must NOT carry although its exact mask is not fixed.  xterm defines codes 66/67 as
	// wheel left/right (buttons 6/7); the statement wants primary/middle/secondary/wheel-up/wheel-down "as xterm defines
	// them" (codes 0/1/2/64/65), so a report of wheel-left/right must not claim any of those five (what else it says, if
	// anything, the statement leaves open)
	forbid int
}

func clipInt(v, n int) int {
	if v < 0 {
		v = 0
	}
	if v > n-1 {
		v = n - 1
	}
	return v
}

// specMouse: expected events of a report sequence per the property statement.  held: 0 no button, 1 a button, 2 unknown
func specMouse(reps []mreport, w, hh int) []mexpect {
	held := 0
	var out []mexpect
	for i, r := range reps {
		if i > 0 && reps[i-1].sgr != r.sgr {
			held = 2 // a terminal reports in one protocol at a time; after a switch nothing is known about held buttons
		}
		c := r.code & 0xff
		e := mexpect{x: clipInt(r.x-1, w), y: clipInt(r.y-1, hh)}
		if c&4 != 0 {
			e.mods |= int(tcell.ModShift)
		}
		if c&8 != 0 {
			e.mods |= int(tcell.ModAlt)
		}
		if c&16 != 0 {
			e.mods |= int(tcell.ModCtrl)
		}
		btn := func(low int) int {
			switch low {
			case 0:
				return int(tcell.Button1) // left = primary
			case 1:
				return int(tcell.Button3) // middle
			case 2:
				return int(tcell.Button2) // right = secondary
			}
			return 0
		}
		low := c & 3
		switch {
		case !r.valid || c&128 != 0:
			e.buttons = -1
			held = 2
		case r.sgr && r.release:
			e.buttons = 0
			held = 0
		case c&32 != 0: // motion
			e.motion = true
			if c&64 != 0 {
				e.buttons = -1
			} else if low == 3 {
				e.buttons = 0
			} else if held == 1 {
				e.buttons = btn(low)
			} else if held == 0 {
				e.buttons = 0
			} else {
				e.buttons = -1
			}
		case c&64 != 0: // wheel
			if low == 0 {
				e.buttons = int(tcell.WheelUp)
			} else if low == 1 {
				e.buttons = int(tcell.WheelDown)
			} else {
				e.buttons = -1
				e.forbid = int(tcell.WheelUp | tcell.WheelDown | tcell.Button1 | tcell.Button2 | tcell.Button3)
				held = 2 // the statement does not say whether such a code counts as a press
			}
		case low == 3: // X11 release; in SGR mode a press of "no button" is not defined
			if r.sgr {
				e.buttons = -1
				held = 2
			} else {
				e.buttons = 0
				held = 0
			}
		default: // press
			e.buttons = btn(low)
			held = 1
		}
		out = append(out, e)
	}
	return out
}

func isWheel(b int) bool { return b == int(tcell.WheelUp) || b == int(tcell.WheelDown) }

func mouseOracle(ti *terminfo.Terminfo, cs string, w, hh int, fs []feed, all []string, left int) []h.Finding {
	if ti.Mouse == "" || w < 1 || hh < 1 {
		return nil
	}
	var stream []byte
	for i, f := range fs {
		if f.expire && i != len(fs)-1 {
			return nil // a timeout expiring inside the stream is outside the statement
		}
		stream = append(stream, f.b...)
	}
	// reports, each possibly preceded by lone ESC bytes (same read or an earlier one, no timeout in between).  C12 says
	// what every REPORT decodes to; what becomes of such an ESC (an Esc key event, Alt on a later key, nothing) is not
	// C12's business: with lone ESCs in the stream only the mouse events are looked at.
	reps, escs, ok := tokenizeMouseEsc(stream, true)
	if !ok {
		return nil
	}
	if len(escs) > 0 {
		keys := tcell.VerifKeyTable(ti)
		for _, off := range escs {
			for k := range keys {
				if k != "\x1b" && strings.HasPrefix(string(stream[off:]), k) {
					return nil // the ESC begins a key sequence of this entry: not a lone ESC
				}
			}
		}
		var ms []string
		for _, e := range all {
			if strings.HasPrefix(e, "M.") {
				ms = append(ms, e)
			}
		}
		all = ms
	}
	for i := range stream {
		if stream[i] == 0x9b && cs != "UTF-8" {
			return nil // in an 8-bit charset the byte 0x9B is a character of the charset; C1 controls are then not recognised
		}
	}
	// a key capability of the entry that is a prefix of a report legitimately wins (none in the database)
	for k := range tcell.VerifKeyTable(ti) {
		if k != "\x1b" && (strings.HasPrefix(k, "\x1b[M") || strings.HasPrefix(k, "\x1b[<") || k == "\x1b[" || k[0] == 0x9b) {
			return nil
		}
	}
	exp := specMouse(reps, w, hh)
	var fsx []h.Finding
	add := func(c, m string) {
		if len(fsx) < 2 {
			fsx = append(fsx, h.Finding{Class: c, Msg: m})
		}
	}
	if len(all) != len(exp) || left != 0 {
		add("mouse-count", fmt.Sprintf("%d reports gave %d events %v, %d bytes left", len(exp), len(all), all, left))
		return fsx
	}
	for i, e := range exp {
		var x, y, b, m int
		if n, _ := fmt.Sscanf(all[i], "M.%d.%d.%d.%d", &x, &y, &b, &m); n != 4 {
			add("mouse-count", fmt.Sprintf("report %d decoded to %s, not a mouse event", i, all[i]))
			return fsx
		}
		r := reps[i]
		kind := "sgr"
		if !r.sgr {
			kind = "x11"
		}
		desc := fmt.Sprintf("report %d (%s code=%d x=%d y=%d release=%v) on %dx%d → %s", i, kind, r.code, r.x, r.y, r.release, w, hh, all[i])
		if x != e.x || y != e.y {
			add("mouse-position", fmt.Sprintf("%s, want position %d,%d", desc, e.x, e.y))
		}
		if r.valid && m != e.mods {
			add("mouse-mods", fmt.Sprintf("%s, want modifiers %d", desc, e.mods))
		}
		if e.buttons >= 0 && b != e.buttons {
			cls := "mouse-buttons"
			if !r.sgr && e.motion && isWheel(b) {
				cls = "x11-motion-as-wheel"
			} else if !r.sgr && e.motion && b == 0 {
				cls = "x11-drag-loses-button"
			}
			add(cls, fmt.Sprintf("%s, want buttons %d", desc, e.buttons))
		}
		if e.buttons < 0 && b&e.forbid != 0 {
			add("mouse-hwheel-misreported", fmt.Sprintf("%s: code %d is xterm's wheel-left/right; the event claims button mask %d (wheel-up/down or a primary/middle/secondary button), which xterm defines as codes 64/65/0/1/2", desc, r.code&0xff, b))
		}
	}
	return fsx
}

// ---------------------------------------------------------------------------------------------------------------
// parse / parsechunk

func execParse(line string, chunkOracle bool) h.Result {
	f := strings.Fields(line)
	if len(f) < 5 {
		return h.Result{Obs: "bad-line"}
	}
	ti, stale := entryOf(f[1])
	if ti == nil {
		return h.Result{Obs: "no-entry"}
	}
	cs := charsetName(f[2])
	w, hh := h.Atoi(f[3]), h.Atoi(f[4])
	fs := parseFeeds(f[5:])
	obs, all, left := runFeeds(ti, cs, w, hh, fs)
	res := h.Result{Obs: strings.Join(obs, " "), Nontrivial: len(all) > 0}
	if stale {
		res.Obs = "SKIP variant-mismatch " + res.Obs
	}
	tags := map[string]bool{"entry:" + ti.Name: true, "charset:" + cs: true}
	for _, e := range all {
		tags["ev:"+e[:1]] = true
	}
	if len(fs) > 1 {
		tags["chunked"] = true
	}
	if left > 0 {
		tags["leftover"] = true
	}
	if !chunkOracle {
		fx := mouseOracle(ti, cs, w, hh, fs, all, left)
		if _, escs, ok := tokenizeMouseEsc(joinFeeds(fs), true); ok && len(escs) > 0 {
			tags["mouse-after-lone-esc"] = true
		}
		if r, ok := tokenizeMouseLine(fs); ok {
			tags["mouse-only"] = true
			for _, m := range r {
				if m.sgr {
					tags["sgr"] = true
				} else {
					tags["x11"] = true
				}
			}
		}
		res.Findings = append(res.Findings, fx...)
	} else {
		res.Findings = append(res.Findings, chunkOracleRun(ti, cs, w, hh, fs, all, left)...)
		fx, tg := swallowOracle(ti, cs, w, hh, fs)
		res.Findings = append(res.Findings, fx...)
		for _, t := range tg {
			tags[t] = true
		}
	}
	for t := range tags {
		res.Tags = append(res.Tags, t)
	}
	sort.Strings(res.Tags)
	return res
}

func joinFeeds(fs []feed) []byte {
	var s []byte
	for _, f := range fs {
		s = append(s, f.b...)
	}
	return s
}

func tokenizeMouseLine(fs []feed) ([]mreport, bool) { return tokenizeMouse(joinFeeds(fs)) }

// C02 oracle: no timeout expires between the reads (only the last feed may carry the expire flag), so the events
// must equal those of one read of the concatenation; after expiry nothing may remain buffered.
func chunkOracleRun(ti *terminfo.Terminfo, cs string, w, hh int, fs []feed, all []string, left int) []h.Finding {
	var stream []byte
	for i, f := range fs {
		if f.expire && i != len(fs)-1 {
			return nil
		}
		stream = append(stream, f.b...)
	}
	if len(fs) == 0 {
		return nil
	}
	last := fs[len(fs)-1].expire
	_, whole, wleft := runFeeds(ti, cs, w, hh, []feed{{stream, last}})
	var out []h.Finding
	if strings.Join(whole, ",") != strings.Join(all, ",") || wleft != left {
		// name the class after the kind of event that exists in one decoding only
		class := "chunk-dependent"
		for _, e := range append(multisetDiff(whole, all), multisetDiff(all, whole)...) {
			if strings.HasPrefix(e, "C.") {
				class = "chunk-dependent-clipboard"
				break
			}
			if strings.HasPrefix(e, "F.") {
				class = "chunk-dependent-focus"
			}
		}
		out = append(out, h.Finding{Class: class, Msg: fmt.Sprintf("%s bytes %s: one read → %v (+%d buffered); %d reads → %v (+%d buffered)", activeParsers(ti), h.Hex(stream), whole, wleft, len(fs), all, left)})
	}
	if last && left != 0 {
		out = append(out, h.Finding{Class: "chunk-leftover-after-expire", Msg: fmt.Sprintf("%d bytes still buffered after the escape timeout", left)})
	}
	return out
}

// ---- generators

var coordClasses = []string{"neg", "zero", "one", "in", "edge", "beyond", "multi", "far", "mixed"}

func coordOf(g *h.Gen, class string, w, hh int) (int, int) {
	switch class {
	case "neg":
		return -g.R.Range(1, 40), -g.R.Range(1, 300)
	case "zero":
		return 0, 0
	case "one":
		return 1, 1
	case "in":
		return g.R.Range(1, w), g.R.Range(1, hh)
	case "edge":
		return w, hh
	case "beyond":
		return w + g.R.Range(1, 5), hh + g.R.Range(1, 5)
	case "multi":
		return g.R.Range(100, 99999), g.R.Range(1000, 9999999)
	case "far":
		return g.R.Range(1, 1<<40), g.R.Range(1, 1<<50)
	}
	return g.R.Range(-3, w+3), g.R.Range(-3, hh+3)
}

func sgrBytes(intro8 bool, b, x, y int, release bool) []byte {
	s := "\x1b["
	if intro8 {
		s = "\x9b"
	}
	fin := "M"
	if release {
		fin = "m"
	}
	return []byte(fmt.Sprintf("%s<%d;%d;%d%s", s, b, x, y, fin))
}

func x11Bytes(intro8 bool, cb, cx, cy int) []byte {
	s := "\x1b["
	if intro8 {
		s = "\x9b"
	}
	return append([]byte(s+"M"), byte(cb), byte(cx), byte(cy))
}

func hexFeed(b []byte, expire bool) string {
	e := "0"
	if expire {
		e = "1"
	}
	return h.Hex(b) + ":" + e
}

// partition b into 1..k random chunks; the last one carries `expire`
func partition(g *h.Gen, b []byte, expire bool) string {
	if len(b) == 0 {
		return hexFeed(nil, expire)
	}
	var cuts []int
	n := g.R.Range(0, 4)
	if g.R.Chance(15) {
		n = len(b) - 1 // every byte its own read
	}
	for i := 0; i < n && len(b) > 1; i++ {
		cuts = append(cuts, g.R.Range(1, len(b)-1))
	}
	sort.Ints(cuts)
	var out []string
	prev := 0
	for _, c := range cuts {
		if c == prev {
			continue
		}
		out = append(out, hexFeed(b[prev:c], false))
		prev = c
	}
	out = append(out, hexFeed(b[prev:], expire))
	return strings.Join(out, " ")
}

func randMouseReport(g *h.Gen, w, hh int, sgrPct int) []byte {
	x, y := coordOf(g, h.Pick(g.R, coordClasses), w, hh)
	intro8 := g.R.Chance(10)
	if g.R.Chance(sgrPct) {
		codes := []int{0, 1, 2, 3, 32, 33, 34, 35, 64, 65, 0, 0, 32, 4, 8, 16, 28, 36, 66, 67, 128}
		b := h.Pick(g.R, codes)
		if g.R.Chance(15) {
			b = g.R.Range(0, 255)
		}
		return sgrBytes(intro8, b, x, y, g.R.Chance(30))
	}
	codes := []int{0, 1, 2, 3, 32, 33, 34, 35, 64, 65, 0, 3, 32, 4, 8, 16}
	c := h.Pick(g.R, codes)
	if g.R.Chance(15) {
		c = g.R.Range(0, 223)
	}
	cx, cy := clipInt(x, 222)+32, clipInt(y, 222)+32
	return x11Bytes(intro8, c+32, cx, cy)
}

func entryKeySeqs(ti *terminfo.Terminfo) []string {
	var ks []string
	for k := range tcell.VerifKeyTable(ti) {
		ks = append(ks, k)
	}
	sort.Strings(ks)
	return ks
}

func randToken(g *h.Gen, ti *terminfo.Terminfo, keys []string, w, hh int) []byte {
	switch g.R.Intn(14) {
	case 0, 1, 2:
		return []byte(h.Pick(g.R, keys))
	case 3:
		return randMouseReport(g, w, hh, 70)
	case 4:
		return []byte(h.Pick(g.R, []string{"\x1b[200~", "\x1b[201~", "\x1b[I", "\x1b[O"}))
	case 5:
		pay := h.Pick(g.R, []string{"aGVsbG8=", "", "QQ==", "QUI=", "QUJD", "aGVsbG8gd29ybGQ=", "QQ=", "Q", "QUJDRA==", "a\nGk="})
		term := h.Pick(g.R, []string{"\a", "\x1b\\"})
		return []byte("\x1b]52;c;" + pay + term)
	case 6:
		rs := []rune{'a', 'Z', ' ', '~', 0x7f, 0xe9, 0x20ac, 0x4e16, 0x1f600, 0x80, 0x7ff, 0x800, 0xffff, 0x10000, 0x10ffff, 0xfffd}
		return []byte(string(h.Pick(g.R, rs)))
	case 7:
		inv := [][]byte{{0x80}, {0xc3}, {0xe2, 0x82}, {0xf0, 0x9f, 0x98}, {0xc0, 0xaf}, {0xed, 0xa0, 0x80}, {0xff}, {0xf5, 0x80, 0x80, 0x80}, {0xe9}, {0x9b}}
		return h.Pick(g.R, inv)
	case 8:
		n := g.R.Range(1, 6)
		b := make([]byte, n)
		for i := range b {
			b[i] = byte(g.R.Intn(256))
		}
		return b
	case 9:
		return []byte{byte(g.R.Intn(32))}
	case 10:
		return []byte{0x1b}
	case 11:
		return append([]byte{0x1b}, []byte(h.Pick(g.R, keys))...)
	case 12:
		// near-misses of the fixed sequences
		return []byte(h.Pick(g.R, []string{"\x1b[", "\x1b[<", "\x1b[M", "\x1b]52;c;", "\x1b]52", "\x1b[<0;1", "\x1b[<0;1;1", "\x1bq[<0;5;5M", "\x1b[<-;1;1M", "\x1b[<;;M", "\x1b[<1;2;3;4M", "\x1b[20", "\x1bO",
			"\xff\x1b[<0;5;5M", "\x1b[<0:5;5M", "\x1b[<<0;5;5M", "\x1b[<0;5;5xM", "\x1b[[<0;5;5M", "\x1b\x1b[<0;5;5M", "\x1b[<0;5 ;5M", "\x1b[<0;5;5~"}))
	}
	return []byte(h.Pick(g.R, []string{"x", "hello", "\r", "\t", "q"}))
}

func rotatingEntries(g *h.Gen, n int) []string {
	names := primaryNames()
	fixed := []string{"xterm-256color", "linux", "vt100", "vt220"}
	out := append([]string{}, fixed...)
	if g.Thorough() {
		return names
	}
	for i := 0; i < n; i++ {
		c := h.Pick(g.R, names)
		dup := false
		for _, o := range out {
			dup = dup || o == c
		}
		if !dup {
			out = append(out, c)
		}
	}
	return out
}

func genParse(g *h.Gen) {
	w, hh := 80, 24
	// (a) every SGR code × final × introducer × coordinate class, alone, from the initial state
	for b := 0; b < 256; b++ {
		for _, rel := range []bool{false, true} {
			for _, i8 := range []bool{false, true} {
				for _, cl := range coordClasses {
					x, y := coordOf(g, cl, w, hh)
					g.Emit("parse xterm-256color%s utf8 %d %d %s", variantSuffix(), w, hh, hexFeed(sgrBytes(i8, b, x, y, rel), false))
				}
			}
		}
	}
	// (b) every X11 Cb × introducer × a few Cx,Cy (incl. < 33 and 255)
	for cb := 0; cb < 256; cb++ {
		for _, i8 := range []bool{false, true} {
			for _, c := range [][2]int{{33, 33}, {32, 0}, {33 + g.R.Intn(80), 33 + g.R.Intn(24)}, {255, 255}, {112, 56}, {113, 57}} {
				g.Emit("parse xterm-direct%s utf8 %d %d %s", variantSuffix(), w, hh, hexFeed(x11Bytes(i8, cb, c[0], c[1]), false))
			}
		}
	}
	// (b') a report preceded by a lone ESC (an Esc key press / Alt prefix typed just before the terminal reported): every
	// modifier combination and button class, SGR 7-bit / 8-bit and X11, in one read, the ESC in a read of its own, and
	// the read boundary inside the report — never with a timeout in between.  The report's modifiers are its own bits.
	for _, b := range []int{0, 1, 2, 3, 4, 8, 12, 16, 20, 24, 28, 32, 35, 40, 64, 65, 66, 72, 128} {
		for kind := 0; kind < 3; kind++ {
			for _, nesc := range []int{1, 2} {
				x, y := coordOf(g, "in", w, hh)
				var rep []byte
				switch kind {
				case 0:
					rep = sgrBytes(false, b, x, y, b%8 == 3)
				case 1:
					rep = sgrBytes(true, b, x, y, false)
				default:
					rep = x11Bytes(false, (b&0xdf)+32, x+32, y+32)
				}
				pre := bytes.Repeat([]byte{0x1b}, nesc)
				ent := []string{"xterm-256color", "xterm", "linux", "alacritty"}[(b+kind+nesc)%4] + variantSuffix()
				whole := append(append([]byte{}, pre...), rep...)
				g.Emit("parse %s utf8 %d %d %s", ent, w, hh, hexFeed(whole, false))
				g.Emit("parse %s utf8 %d %d %s %s", ent, w, hh, hexFeed(pre, false), hexFeed(rep, nesc == 2))
				cut := len(pre) + 1 + (b+kind)%(len(rep)-1)
				g.Emit("parse %s utf8 %d %d %s %s", ent, w, hh, hexFeed(whole[:cut], false), hexFeed(whole[cut:], false))
				// … and a second report behind it (the ESC's effect must not reach that one either)
				g.Emit("parse %s utf8 %d %d %s", ent, w, hh, hexFeed(append(append([]byte{}, whole...), rep...), false))
			}
		}
	}
	// (c) report sequences (press / drag / wheel / release), whole and partitioned, several screen sizes and entries; in a
	// fifth of the streams some reports are preceded by a lone ESC
	mouseEntries := []string{"xterm-256color", "xterm", "linux", "screen", "rxvt", "tmux", "foot", "alacritty"}
	for i := 0; i < g.N(1500, 100000); i++ {
		ww, hw := h.Pick(g.R, []int{80, 1, 2, 132, 300}), h.Pick(g.R, []int{24, 1, 3, 50, 100})
		var s []byte
		pct := h.Pick(g.R, []int{100, 100, 100, 0, 0, 60}) // mostly one protocol per stream
		escPct := h.Pick(g.R, []int{0, 0, 0, 0, 35})
		for k := g.R.Range(1, 8); k > 0; k-- {
			if escPct > 0 && g.R.Chance(escPct) {
				s = append(s, 0x1b)
			}
			s = append(s, randMouseReport(g, ww, hw, pct)...)
		}
		cs := "utf8"
		if g.R.Chance(10) {
			cs = charsetToken("ISO8859-1")
		}
		g.Emit("parse %s%s %s %d %d %s", h.Pick(g.R, mouseEntries), variantSuffix(), cs, ww, hw, partition(g, s, g.R.Chance(30)))
	}
	// (d) mixed token strings on rotating entries (correspondence of the whole parser)
	genMixed(g, "parse", g.N(150, 3000))
}

func genMixed(g *h.Gen, eng string, perEntry int) {
	css := []string{"utf8", "utf8", "utf8", charsetToken("ISO8859-1"), charsetToken("US-ASCII"), charsetToken("KOI8-R")}
	for _, name := range rotatingEntries(g, 6) {
		ti := entries()[name]
		keys := entryKeySeqs(ti)
		for i := 0; i < perEntry; i++ {
			var s []byte
			for k := g.R.Range(1, 7); k > 0; k-- {
				s = append(s, randToken(g, ti, keys, 80, 24)...)
			}
			line := fmt.Sprintf("%s %s%s %s 80 24 %s", eng, name, variantSuffix(), h.Pick(g.R, css), partition(g, s, g.R.Chance(60)))
			if g.R.Chance(20) {
				line += " " + hexFeed(nil, true) // a later timer tick
			}
			g.Lines = append(g.Lines, line)
		}
	}
}


// ---------------------------------------------------------------------------------------------------------------
// keytable

func genKeyTable(g *h.Gen) {
	var all []string
	for n := range entries() {
		all = append(all, n)
	}
	sort.Strings(all)
	for _, n := range all {
		g.Emit("keytable %s%s", n, variantSuffix())
	}
}

func execKeyTable(line string) h.Result {
	f := strings.Fields(line)
	if len(f) != 2 {
		return h.Result{Obs: "bad-line"}
	}
	ti, stale := entryOf(f[1])
	if ti == nil {
		return h.Result{Obs: "no-entry"}
	}
	tb := tcell.VerifKeyTable(ti)
	ks := entryKeySeqs(ti)
	parts := make([]string, len(ks))
	for i, k := range ks {
		parts[i] = fmt.Sprintf("%s=%d.%d", h.Hex([]byte(k)), tb[k][0], tb[k][1])
	}
	res := h.Result{Obs: strings.Join(parts, " "), Nontrivial: true, Tags: []string{fmt.Sprintf("size:%d", len(ks)/50*50)}}
	if stale {
		res.Obs = "SKIP variant-mismatch"
	}
	// C03: no defined sequence is a proper prefix of another (sorted ⇒ a prefix is followed by an extension)
	for i := 0; i+1 < len(ks); i++ {
		if strings.HasPrefix(ks[i+1], ks[i]) {
			res.Findings = append(res.Findings, h.Finding{Class: "key-prefix-conflict", Msg: fmt.Sprintf("%s: sequence %q (key %d) is a proper prefix of %q (key %d): decoding depends on map iteration order", ti.Name, ks[i], tb[ks[i]][0], ks[i+1], tb[ks[i+1]][0])})
			break
		}
	}
	return res
}

// ---------------------------------------------------------------------------------------------------------------
// keyseq (C03 oracle)

type capKey struct {
	field string
	key   int
	mod   int
}

// key capabilities of terminfo.Terminfo and the (key, modifiers) each one stands for, from the field names
// (terminfo(5) key_* capabilities as named in terminfo.go); independent of prepareKeys.
func capTable() []capKey {
	base := map[string]tcell.Key{
		"Backspace": tcell.KeyBackspace, "Insert": tcell.KeyInsert, "Delete": tcell.KeyDelete, "Home": tcell.KeyHome, "End": tcell.KeyEnd,
		"Help": tcell.KeyHelp, "PgUp": tcell.KeyPgUp, "PgDn": tcell.KeyPgDn, "Up": tcell.KeyUp, "Down": tcell.KeyDown, "Left": tcell.KeyLeft,
		"Right": tcell.KeyRight, "Backtab": tcell.KeyBacktab, "Exit": tcell.KeyExit, "Clear": tcell.KeyClear, "Print": tcell.KeyPrint, "Cancel": tcell.KeyCancel,
	}
	mods := []struct {
		p string
		m tcell.ModMask
	}{
		{"AltShf", tcell.ModAlt | tcell.ModShift}, {"MetaShf", tcell.ModMeta | tcell.ModShift}, {"CtrlShf", tcell.ModCtrl | tcell.ModShift},
		{"Shf", tcell.ModShift}, {"Ctrl", tcell.ModCtrl}, {"Meta", tcell.ModMeta}, {"Alt", tcell.ModAlt},
	}
	var out []capKey
	rt := reflect.TypeOf(terminfo.Terminfo{})
	for i := 0; i < rt.NumField(); i++ {
		n := rt.Field(i).Name
		if !strings.HasPrefix(n, "Key") || rt.Field(i).Type.Kind() != reflect.String {
			continue
		}
		rest := n[3:]
		if len(rest) > 1 && rest[0] == 'F' && rest[1] >= '0' && rest[1] <= '9' {
			k, _ := strconv.Atoi(rest[1:])
			out = append(out, capKey{n, int(tcell.KeyF1) + k - 1, 0})
			continue
		}
		if k, ok := base[rest]; ok {
			out = append(out, capKey{n, int(k), 0})
			continue
		}
		for _, m := range mods {
			if strings.HasPrefix(rest, m.p) {
				if k, ok := base[rest[len(m.p):]]; ok {
					out = append(out, capKey{n, int(k), int(m.m)})
				}
				break
			}
		}
	}
	return out
}

var capTab = capTable()

func fieldStr(ti *terminfo.Terminfo, name string) string {
	return reflect.ValueOf(*ti).FieldByName(name).String()
}

// fAlias: the terminfo convention (xterm's kf13…kf63) for function keys beyond F12: F13-24 = Shift F1-12,
// F25-36 = Ctrl, F37-48 = Ctrl+Shift, F49-60 = Alt(Meta), F61-63 = Alt+Shift.
func fAlias(key int) (int, int, bool) {
	f1 := int(tcell.KeyF1)
	n := key - f1
	if n < 12 || n > 63 {
		return 0, 0, false
	}
	m := []int{0, int(tcell.ModShift), int(tcell.ModCtrl), int(tcell.ModCtrl | tcell.ModShift), int(tcell.ModAlt), int(tcell.ModAlt | tcell.ModShift)}[n/12]
	return f1 + n%12, m, true
}

// assigned: the (key, mods) the description assigns to seq, from its fields alone
func assigned(ti *terminfo.Terminfo, seq string) [][2]int {
	var out [][2]int
	for _, c := range capTab {
		if fieldStr(ti, c.field) == seq {
			out = append(out, [2]int{c.key, c.mod})
			if b, m, ok := fAlias(c.key); ok && c.mod == 0 {
				out = append(out, [2]int{b, m})
			}
		}
	}
	return out
}

// xtermMods: ctlseqs "PC-Style Function Keys": parameter n encodes n-1 = Shift(1) + Alt(2) + Ctrl(4) + Meta(8)
func xtermMods(n int) int {
	b := n - 1
	m := 0
	if b&1 != 0 {
		m |= int(tcell.ModShift)
	}
	if b&2 != 0 {
		m |= int(tcell.ModAlt)
	}
	if b&4 != 0 {
		m |= int(tcell.ModCtrl)
	}
	if b&8 != 0 {
		m |= int(tcell.ModMeta)
	}
	return m
}

var xtermModFields = []string{"KeyRight", "KeyLeft", "KeyUp", "KeyDown", "KeyInsert", "KeyDelete", "KeyPgUp", "KeyPgDn", "KeyHome", "KeyEnd",
	"KeyF1", "KeyF2", "KeyF3", "KeyF4", "KeyF5", "KeyF6", "KeyF7", "KeyF8", "KeyF9", "KeyF10", "KeyF11", "KeyF12"}

// modSeq: the sequence xterm sends for the key whose unmodified sequence is s with modifier parameter n:
// `CSI k ~` → `CSI k ; n ~`, `SS3 x` / `CSI x` → `CSI 1 ; n x`
func modSeq(s string, n int) (string, bool) {
	if strings.HasPrefix(s, "\x1b[") && strings.HasSuffix(s, "~") && len(s) > 3 {
		return s[:len(s)-1] + ";" + strconv.Itoa(n) + "~", true
	}
	if len(s) == 3 && (strings.HasPrefix(s, "\x1bO") || strings.HasPrefix(s, "\x1b[")) && s[2] >= 'A' && s[2] <= 'Z' {
		return "\x1b[1;" + strconv.Itoa(n) + s[2:], true
	}
	return "", false
}

func genKeySeq(g *h.Gen) {
	for _, pname := range primaryNames() {
		ti := entries()[pname]
		name := pname + variantSuffix()
		tb := entryKeySeqs(ti)
		seen := map[string]bool{}
		for _, c := range capTab {
			s := fieldStr(ti, c.field)
			if s == "" || seen[s] {
				continue
			}
			seen[s] = true
			g.Emit("keyseq %s cap 1 %s -", name, h.Hex([]byte(s)))
			g.Emit("keyseq %s cap 0 %s -", name, h.Hex([]byte(s)))
			// the same key typed after one / two / three ESC bytes that the escape timeout has resolved (a history on one screen)
			if n := len(seen); n%4 == 1 || g.Thorough() {
				g.Emit("keyseq %s afteresc 1 %s %s", name, h.Hex([]byte(s)), []string{"1b", "1b1b", "1b1b1b"}[n%3])
			}
		}
		for _, s := range []string{ti.PasteStart, ti.PasteEnd} {
			if s != "" {
				g.Emit("keyseq %s paste 1 %s -", name, h.Hex([]byte(s)))
			}
		}
		for _, s := range tb {
			g.Emit("keyseq %s tab 1 %s -", name, h.Hex([]byte(s)))
			if g.Thorough() || g.R.Chance(25) {
				g.Emit("keyseq %s alt 1 %s -", name, h.Hex([]byte(s)))
			}
		}
		if ti.Modifiers == terminfo.ModifiersXTerm {
			for _, fn := range xtermModFields {
				s := fieldStr(ti, fn)
				for n := 2; n <= 16; n++ {
					if ms, ok := modSeq(s, n); ok {
						g.Emit("keyseq %s mod:%s:%d 1 %s -", name, fn, n, h.Hex([]byte(ms)))
					}
				}
			}
		}
		for c := 0; c < 32; c++ {
			g.Emit("keyseq %s ctrl 1 %02x -", name, c)
		}
		g.Emit("keyseq %s esc 1 1b -", name)
		g.Emit("keyseq %s del 1 7f -", name)
		g.Emit("keyseq %s del 0 7f -", name)
		npT := len(tb) * len(tb)
		if npT > 12000 {
			npT = 12000 // all pairs would be ~8M cases over the database: sampled (the pair law itself is the theorem concat_decodes)
		}
		np := g.N(40, npT)
		for i := 0; i < np && len(tb) > 0; i++ {
			a, b := h.Pick(g.R, tb), h.Pick(g.R, tb)
			g.Emit("keyseq %s pair 1 %s %s", name, h.Hex([]byte(a)), h.Hex([]byte(b)))
		}
	}
}

func keyOf(ev string) (int, int, bool) {
	var k, r, m int
	if n, _ := fmt.Sscanf(ev, "K.%d.%d.%d", &k, &r, &m); n == 3 {
		return k, m, true
	}
	return 0, 0, false
}

func execKeySeq(line string) h.Result {
	f := strings.Fields(line)
	if len(f) != 6 {
		return h.Result{Obs: "bad-line"}
	}
	ti, stale := entryOf(f[1])
	if ti == nil {
		return h.Result{Obs: "no-entry"}
	}
	kind, expire := f[2], f[3] == "1"
	s1, s2 := h.Unhex(f[4]), h.Unhex(f[5])
	var b []byte
	if kind == "alt" {
		b = append(b, 0x1b)
	}
	b = append(append(b, s1...), s2...)
	fs := []feed{{b, expire}}
	nPrefix := 0
	if kind == "afteresc" {
		// s2 (one or more ESC bytes) is read and resolved by the escape timeout FIRST; then the key s1 arrives: a history
		// on one screen — the key must decode as it does on a fresh one (no modifier left over from the resolved ESCs)
		b = s1
		_, pre, _ := runFeeds(ti, "UTF-8", 80, 24, []feed{{s2, true}})
		nPrefix = len(pre)
		fs = []feed{{s2, true}, {s1, expire}}
	}
	obs, all, left := runFeeds(ti, "UTF-8", 80, 24, fs)
	if kind == "afteresc" {
		if nPrefix <= len(all) {
			all = all[nPrefix:]
		}
	}
	res := h.Result{Obs: strings.Join(obs, " "), Nontrivial: true, Tags: []string{"kind:" + strings.SplitN(kind, ":", 2)[0]}}
	if stale {
		res.Obs = "SKIP variant-mismatch " + res.Obs
	}
	add := func(c, format string, a ...interface{}) {
		res.Findings = append(res.Findings, h.Finding{Class: c, Msg: fmt.Sprintf("%s %s %q: ", ti.Name, kind, string(b)) + fmt.Sprintf(format, a...)})
	}
	tb := tcell.VerifKeyTable(ti)
	extended := func(s string) bool { // some other defined sequence extends s (then, without a timeout, the parser must wait)
		for k := range tb {
			if k != s && strings.HasPrefix(k, s) {
				return true
			}
		}
		return false
	}
	one := func() (int, int, bool) {
		if len(all) != 1 || left != 0 {
			add("key-not-one-event", "decoded to %v with %d bytes left, want exactly one key event", all, left)
			return 0, 0, false
		}
		k, m, ok := keyOf(all[0])
		if !ok {
			add("key-not-one-event", "decoded to %v, want a key event", all)
		}
		return k, m, ok
	}
	switch {
	case kind == "cap" || kind == "afteresc":
		s := string(s1)
		if !expire && extended(s) {
			break
		}
		want := assigned(ti, s)
		if s == "\x7f" {
			want = [][2]int{{int(tcell.KeyBackspace2), 0}} // "a single DEL byte being reported as Backspace2"
		}
		if ti.Modifiers == terminfo.ModifiersXTerm {
			// on xterm-style entries a capability string may coincide with a modified cursor/editing/function key
			// (st: kclr = CSI 3;5~ = Ctrl-Delete); the statement allows either reading
			for _, fn := range xtermModFields {
				for n := 2; n <= 16; n++ {
					if ms, ok := modSeq(fieldStr(ti, fn), n); ok && ms == s {
						for _, c := range capTab {
							if c.field == fn {
								want = append(want, [2]int{c.key, xtermMods(n)})
							}
						}
					}
				}
			}
		}
		if _, in := tb[s]; !in && s != "\x7f" {
			add("key-capability-ignored", "the description defines this key sequence (%v) but the key table has no entry for it; decoded to %v", want, all)
			break
		}
		if k, m, ok := one(); ok {
			hit := false
			for _, w := range want {
				hit = hit || (w[0] == k && w[1] == m)
			}
			if !hit {
				add("key-wrong", "decoded to key %d mods %d; the description assigns %v", k, m, want)
			}
		}
	case kind == "paste":
		if len(all) != 1 || left != 0 || !strings.HasPrefix(all[0], "P.") {
			add("paste-bracket", "decoded to %v", all)
		}
	case strings.HasPrefix(kind, "mod:"):
		p := strings.Split(kind, ":")
		n := h.Atoi(p[2])
		var key int
		for _, c := range capTab {
			if c.field == p[1] {
				key = c.key
			}
		}
		if k, m, ok := one(); ok && (k != key || m != xtermMods(n)) {
			add("xterm-modifier", "decoded to key %d mods %d, want key %d mods %d (parameter %d)", k, m, key, xtermMods(n), n)
		}
	case kind == "ctrl":
		c := int(s1[0])
		want := [][2]int{{c, int(tcell.ModCtrl)}}
		if c == 8 || c == 9 || c == 13 || c == 27 {
			want = [][2]int{{c, 0}}
		}
		want = append(want, assigned(ti, string(s1))...)
		if k, m, ok := one(); ok {
			hit := false
			for _, w := range want {
				hit = hit || (w[0] == k && w[1] == m)
			}
			if !hit {
				add("ctrl-byte", "decoded to key %d mods %d, want one of %v", k, m, want)
			}
		}
	case kind == "esc":
		if k, m, ok := one(); ok && (k != int(tcell.KeyEsc) || m != 0) {
			add("lone-esc", "decoded to key %d mods %d", k, m)
		}
	case kind == "del":
		if k, m, ok := one(); ok && (k != int(tcell.KeyBackspace2) || m != 0) {
			add("del-backspace2", "decoded to key %d mods %d", k, m)
		}
	case kind == "alt" && string(s1) != "\x1b":
		shadow := false // ESC+sequence is itself (part of) a defined sequence, e.g. linux kcbt = ESC TAB: then that key wins
		for k := range tb {
			if k != "\x1b" && (strings.HasPrefix(k, string(b)) || strings.HasPrefix(string(b), k)) {
				shadow = true
			}
		}
		if shadow {
			break
		}
		_, base, _ := runFeeds(ti, "UTF-8", 80, 24, []feed{{s1, true}})
		if len(base) == 1 {
			if bk, bm, ok := keyOf(base[0]); ok {
				if k, m, ok2 := one(); ok2 && (k != bk || m != bm|int(tcell.ModAlt)) {
					add("alt-prefix", "decoded to key %d mods %d; without the ESC prefix key %d mods %d", k, m, bk, bm)
				}
			}
		}
	case kind == "pair" && string(s1) != "\x1b": // ESC followed by a key is the Alt-prefix clause, not a concatenation
		_, e1, l1 := runFeeds(ti, "UTF-8", 80, 24, []feed{{s1, true}})
		_, e2, l2 := runFeeds(ti, "UTF-8", 80, 24, []feed{{s2, true}})
		if l1 == 0 && l2 == 0 && len(e1) == 1 && len(e2) == 1 {
			if strings.Join(all, ",") != e1[0]+","+e2[0] || left != 0 {
				add("concat", "decoded to %v; separately %v then %v", all, e1, e2)
			}
		}
	}
	return res
}
