package engines

import (
	"fmt"
	ic "image/color"
	"math"
	"runtime"
	"sort"
	"strconv"
	"strings"
	"sync"

	"github.com/gdamore/tcell/v2"
	"github.com/gdamore/tcell/v2/terminfo"
	colorful "github.com/lucasb-eyer/go-colorful"
	"verif/harness/h"
)

// Engine color — C16: colour tables, conversions and FindColor.
//
// lines (payload after "color "):
//   conv <c>                  observe Valid IsRGB Hex RGB TrueColor CSS Name of the uint64 colour value c
//   newrgb <r> <g> <b>        NewRGBColor on int32 arguments (also out of range / negative)
//   newhex <v>                NewHexColor on an int32
//   pal <i>                   PaletteColor(i)
//   get <hex bytes of name>   GetColor(name)
//   img <r> <g> <b>           FromImageColor of a colour whose RGBA() returns these uint32 channels
//   find <c> <p1,p2,…|-> <d1,d2,…|->   FindColor(c, palette); d_i = Float64bits(DistanceCIE76(c, p_i)) computed by the
//                             harness with go-colorful: the model's scan runs on the same numbers (metric = parameter)
//   sweep <palspec> <start> <count> <stride>   oracle only: FindColor on NewHexColor((start+k*stride) mod 2^24), k<count
//   rsweep <palspec> <seed> <count>            oracle only: FindColor on count pseudo-random RGB colours
//   dsweep <palspec> <k>       oracle only: FindColor on DIRECTED colours derived from the palette itself: the points at 1/4,
//                             1/2, 3/4 of the RGB segment between a member and each of its k nearest other members
//                             (k = 0: every pair of members), the 27 colours within +-1 per channel of every member, the
//                             256 greys (decision boundaries between close members, where a scan that stops early or
//                             compares with a tolerance goes wrong)
//                             palspec = xN (PaletteColor(0..N-1), what tscreen.go builds) or a comma list of colour values
//   within <entry>            the tables are compared with a snapshot after Init of / after drawing on / after Fini of a terminfo
//                             screen of that entry: "same same same" (class table-changed-by-screen)
//   cssref <name> <value> / xtermref <i> <value>   consistency of the Go copies of the references with Spec/Color.lean
//
// Oracle (from the property text): the xterm formula, the CSS table below, the round-trip laws, membership and
// argmin w.r.t. the CIE76 distance computed by the harness itself from go-colorful's Lab (precomputed per palette).
// An independent sRGB→CIELAB written from the formulas validates that trusted metric within a tolerance.

const cssTableText = `aliceblue f0f8ff
antiquewhite faebd7
aqua 00ffff
aquamarine 7fffd4
azure f0ffff
beige f5f5dc
bisque ffe4c4
black 000000
blanchedalmond ffebcd
blue 0000ff
blueviolet 8a2be2
brown a52a2a
burlywood deb887
cadetblue 5f9ea0
chartreuse 7fff00
chocolate d2691e
coral ff7f50
cornflowerblue 6495ed
cornsilk fff8dc
crimson dc143c
cyan 00ffff
darkblue 00008b
darkcyan 008b8b
darkgoldenrod b8860b
darkgray a9a9a9
darkgreen 006400
darkgrey a9a9a9
darkkhaki bdb76b
darkmagenta 8b008b
darkolivegreen 556b2f
darkorange ff8c00
darkorchid 9932cc
darkred 8b0000
darksalmon e9967a
darkseagreen 8fbc8f
darkslateblue 483d8b
darkslategray 2f4f4f
darkslategrey 2f4f4f
darkturquoise 00ced1
darkviolet 9400d3
deeppink ff1493
deepskyblue 00bfff
dimgray 696969
dimgrey 696969
dodgerblue 1e90ff
firebrick b22222
floralwhite fffaf0
forestgreen 228b22
fuchsia ff00ff
gainsboro dcdcdc
ghostwhite f8f8ff
gold ffd700
goldenrod daa520
gray 808080
green 008000
greenyellow adff2f
grey 808080
honeydew f0fff0
hotpink ff69b4
indianred cd5c5c
indigo 4b0082
ivory fffff0
khaki f0e68c
lavender e6e6fa
lavenderblush fff0f5
lawngreen 7cfc00
lemonchiffon fffacd
lightblue add8e6
lightcoral f08080
lightcyan e0ffff
lightgoldenrodyellow fafad2
lightgray d3d3d3
lightgreen 90ee90
lightgrey d3d3d3
lightpink ffb6c1
lightsalmon ffa07a
lightseagreen 20b2aa
lightskyblue 87cefa
lightslategray 778899
lightslategrey 778899
lightsteelblue b0c4de
lightyellow ffffe0
lime 00ff00
limegreen 32cd32
linen faf0e6
magenta ff00ff
maroon 800000
mediumaquamarine 66cdaa
mediumblue 0000cd
mediumorchid ba55d3
mediumpurple 9370db
mediumseagreen 3cb371
mediumslateblue 7b68ee
mediumspringgreen 00fa9a
mediumturquoise 48d1cc
mediumvioletred c71585
midnightblue 191970
mintcream f5fffa
mistyrose ffe4e1
moccasin ffe4b5
navajowhite ffdead
navy 000080
oldlace fdf5e6
olive 808000
olivedrab 6b8e23
orange ffa500
orangered ff4500
orchid da70d6
palegoldenrod eee8aa
palegreen 98fb98
paleturquoise afeeee
palevioletred db7093
papayawhip ffefd5
peachpuff ffdab9
peru cd853f
pink ffc0cb
plum dda0dd
powderblue b0e0e6
purple 800080
rebeccapurple 663399
red ff0000
rosybrown bc8f8f
royalblue 4169e1
saddlebrown 8b4513
salmon fa8072
sandybrown f4a460
seagreen 2e8b57
seashell fff5ee
sienna a0522d
silver c0c0c0
skyblue 87ceeb
slateblue 6a5acd
slategray 708090
slategrey 708090
snow fffafa
springgreen 00ff7f
steelblue 4682b4
tan d2b48c
teal 008080
thistle d8bfd8
tomato ff6347
turquoise 40e0d0
violet ee82ee
wheat f5deb3
white ffffff
whitesmoke f5f5f5
yellow ffff00
yellowgreen 9acd32`

var cssTable = func() map[string]int32 {
	m := map[string]int32{}
	for _, l := range strings.Split(strings.TrimSpace(cssTableText), "\n") {
		f := strings.Fields(l)
		v, _ := strconv.ParseInt(f[1], 16, 32)
		m[f[0]] = int32(v)
	}
	return m
}()

func cssNamesSorted() []string {
	ks := make([]string, 0, len(cssTable))
	for k := range cssTable {
		ks = append(ks, k)
	}
	sort.Strings(ks)
	return ks
}

// xtermRef: 256-colour palette of xterm (16 basic colours, 6x6x6 cube with levels 0,95,135,175,215,255, greys 8+10k)
func xtermRef(i int) int32 {
	ansi := []int32{0x000000, 0x800000, 0x008000, 0x808000, 0x000080, 0x800080, 0x008080, 0xc0c0c0,
		0x808080, 0xff0000, 0x00ff00, 0xffff00, 0x0000ff, 0xff00ff, 0x00ffff, 0xffffff}
	lv := func(k int) int32 {
		if k == 0 {
			return 0
		}
		return int32(55 + 40*k)
	}
	switch {
	case i < 16:
		return ansi[i]
	case i < 232:
		j := i - 16
		return lv(j/36)<<16 | lv(j/6%6)<<8 | lv(j%6)
	default:
		g := int32(8 + 10*(i-232))
		return g<<16 | g<<8 | g
	}
}

// ---- trusted metric: go-colorful's Lab, exactly as DistanceCIE76 uses it (colorfit.go builds colorful.Color{r/255,…})
type lab struct{ l, a, b float64 }

func cfLab(c tcell.Color) lab {
	r, g, b := c.RGB()
	l, a, bb := colorful.Color{R: float64(r) / 255.0, G: float64(g) / 255.0, B: float64(b) / 255.0}.Lab()
	return lab{l, a, bb}
}
func sq(x float64) float64 { return x * x }
func labDist(x, y lab) float64 {
	return math.Sqrt(sq(x.l-y.l) + sq(x.a-y.a) + sq(x.b-y.b))
}
func normNaN(d float64) float64 {
	if math.IsNaN(d) {
		return math.Inf(1)
	}
	return d
}

// ---- independent sRGB -> CIELAB (IEC 61966-2-1 transfer function, sRGB/D65 matrix, CIE 1976 L*a*b*, white D65)
func ownLab(r, g, b int32) lab {
	lin := func(v float64) float64 {
		if v <= 0.04045 {
			return v / 12.92
		}
		return math.Pow((v+0.055)/1.055, 2.4)
	}
	R, G, B := lin(float64(r)/255), lin(float64(g)/255), lin(float64(b)/255)
	X := 0.4124564*R + 0.3575761*G + 0.1804375*B
	Y := 0.2126729*R + 0.7151522*G + 0.0721750*B
	Z := 0.0193339*R + 0.1191920*G + 0.9503041*B
	f := func(t float64) float64 {
		if t > 216.0/24389.0 {
			return math.Cbrt(t)
		}
		return (24389.0/27.0*t + 16) / 116
	}
	fx, fy, fz := f(X/0.95047), f(Y/1.0), f(Z/1.08883)
	// go-colorful scales L*a*b* by 1/100 (L in 0..1); the scale does not change which member is nearest
	return lab{(116*fy - 16) / 100, 500 * (fx - fy) / 100, 200 * (fy - fz) / 100}
}

const metricTol = 5e-4 // in go-colorful units (= 0.05 ΔE); measured deviation between the two implementations is about 5e-5

// ---- palettes
type palInfo struct {
	cols   []tcell.Color
	labs   []lab // go-colorful
	own    []lab
	member map[tcell.Color]int // first index
	domain bool                // every member valid with a known RGB
}

func mkPal(cols []tcell.Color) *palInfo {
	p := &palInfo{cols: cols, member: map[tcell.Color]int{}, domain: true}
	for i, c := range cols {
		p.labs = append(p.labs, cfLab(c))
		r, g, b := c.RGB()
		p.own = append(p.own, ownLab(r, g, b))
		if _, ok := p.member[c]; !ok {
			p.member[c] = i
		}
		if !c.Valid() || c.Hex() < 0 {
			p.domain = false
		}
	}
	return p
}

var palCache sync.Map

func parsePalSpec(s string) *palInfo {
	if v, ok := palCache.Load(s); ok {
		return v.(*palInfo)
	}
	var cols []tcell.Color
	if strings.HasPrefix(s, "x") {
		n := h.Atoi(s[1:])
		for i := 0; i < n; i++ {
			cols = append(cols, tcell.PaletteColor(i))
		}
	} else if s != "-" {
		for _, t := range strings.Split(s, ",") {
			cols = append(cols, tcell.Color(h.Atou(t)))
		}
	}
	p := mkPal(cols)
	palCache.Store(s, p)
	return p
}

func showCols(cs []tcell.Color) string {
	if len(cs) == 0 {
		return "-"
	}
	ss := make([]string, len(cs))
	for i, c := range cs {
		ss[i] = strconv.FormatUint(uint64(c), 10)
	}
	return strings.Join(ss, ",")
}

// findLine renders the self-contained `find` case for colour c and palette p (distances from go-colorful)
func findLine(c tcell.Color, cols []tcell.Color) string {
	cl := cfLab(c)
	ds := make([]string, len(cols))
	for i, q := range cols {
		ds[i] = strconv.FormatUint(math.Float64bits(labDist(cl, cfLab(q))), 10)
	}
	d := "-"
	if len(ds) > 0 {
		d = strings.Join(ds, ",")
	}
	return fmt.Sprintf("color find %d %s %s", uint64(c), showCols(cols), d)
}

// checkFind is the FindColor oracle for one colour: membership, default only for the empty palette, no member strictly closer.
func checkFind(c tcell.Color, p *palInfo, got tcell.Color) []h.Finding {
	var fs []h.Finding
	if len(p.cols) == 0 {
		if got != tcell.ColorDefault {
			fs = append(fs, h.Finding{Class: "findcolor-empty", Msg: fmt.Sprintf("FindColor(%d, []) = %d, want ColorDefault", uint64(c), uint64(got))})
		}
		return fs
	}
	gi, ok := p.member[got]
	if !ok {
		return append(fs, h.Finding{Class: "findcolor-not-member", Msg: fmt.Sprintf("FindColor(%#x, palette of %d) = %#x is not a member of the palette; replay: %s", uint64(c), len(p.cols), uint64(got), clipS(findLine(c, p.cols)))})
	}
	cl := cfLab(c)
	dg := normNaN(labDist(cl, p.labs[gi]))
	for i, ql := range p.labs {
		if d := normNaN(labDist(cl, ql)); d < dg {
			fs = append(fs, h.Finding{Class: "findcolor-not-nearest", Msg: fmt.Sprintf("FindColor(%#x, palette of %d) = %#x at CIE76 distance %.6f but member %#x (index %d) is at %.6f; replay: %s",
				uint64(c), len(p.cols), uint64(got), dg, uint64(p.cols[i]), i, d, clipS(findLine(c, p.cols)))})
			break
		}
	}
	// validation of the trusted metric against the independent Lab implementation (result's distance only)
	r, g, b := c.RGB()
	if od := labDist(ownLab(r, g, b), p.own[gi]); math.Abs(od-dg) > metricTol {
		fs = append(fs, h.Finding{Class: "metric-validation", Msg: fmt.Sprintf("go-colorful CIE76 distance %.6f vs independent sRGB->Lab %.6f for %#x / %#x", dg, od, uint64(c), uint64(got))})
	}
	return fs
}

func clipS(s string) string {
	if len(s) > 700 {
		return s[:700] + "…"
	}
	return s
}

// rawImg is an image/color.Color whose RGBA() returns arbitrary uint32 channels
type rawImg struct{ r, g, b, a uint32 }

func (c rawImg) RGBA() (uint32, uint32, uint32, uint32) { return c.r, c.g, c.b, c.a }

// directedColours: see the dsweep line in the header comment (deterministic in (palette, k)).
func directedColours(p *palInfo, k int) []tcell.Color {
	n := len(p.cols)
	type rgb struct{ r, g, b int32 }
	pts := make([]rgb, n)
	for i, c := range p.cols {
		pts[i].r, pts[i].g, pts[i].b = c.RGB()
	}
	seen := map[int32]bool{}
	var out []tcell.Color
	put := func(r, g, b int32) {
		cl := func(v int32) int32 {
			if v < 0 {
				return 0
			}
			if v > 255 {
				return 255
			}
			return v
		}
		v := cl(r)<<16 | cl(g)<<8 | cl(b)
		if !seen[v] {
			seen[v] = true
			out = append(out, tcell.NewHexColor(v))
		}
	}
	seg := func(a, b rgb) {
		for t := int32(1); t <= 3; t++ {
			put((a.r*(4-t)+b.r*t+2)/4, (a.g*(4-t)+b.g*t+2)/4, (a.b*(4-t)+b.b*t+2)/4)
		}
	}
	for i := 0; i < n; i++ {
		if k <= 0 || k >= n-1 {
			for j := i + 1; j < n; j++ {
				seg(pts[i], pts[j])
			}
			continue
		}
		idx := make([]int, 0, n-1)
		for j := 0; j < n; j++ {
			if j != i {
				idx = append(idx, j)
			}
		}
		sort.SliceStable(idx, func(a, b int) bool {
			return normNaN(labDist(p.labs[i], p.labs[idx[a]])) < normNaN(labDist(p.labs[i], p.labs[idx[b]]))
		})
		for _, j := range idx[:k] {
			seg(pts[i], pts[j])
		}
	}
	for i := 0; i < n; i++ {
		for dr := int32(-1); dr <= 1; dr++ {
			for dg := int32(-1); dg <= 1; dg++ {
				for db := int32(-1); db <= 1; db++ {
					put(pts[i].r+dr, pts[i].g+dg, pts[i].b+db)
				}
			}
		}
	}
	for v := int32(0); v < 256; v++ {
		put(v, v, v)
	}
	return out
}

func atoi64(s string) int64 { n, _ := strconv.ParseInt(s, 10, 64); return n }

func colorExec(line string) h.Result {
	f := strings.Fields(line)
	res := h.Result{Nontrivial: true}
	bad := func() h.Result { return h.Result{Obs: "bad-line", Tags: []string{"bad-line"}} }
	if len(f) < 2 || f[0] != "color" {
		return bad()
	}
	add := func(class, format string, a ...interface{}) {
		res.Findings = append(res.Findings, h.Finding{Class: class, Msg: fmt.Sprintf(format, a...)})
	}
	switch f[1] {
	case "within":
		// the colour tables are package-level state: a screen being alive (of whatever colour count) must not change what
		// they say.  Snapshot ColorValues / ColorNames, Init a terminfo screen of this entry over a fake tty, compare, do
		// what screens do with the tables (draw with fitted colours), compare, Fini, compare.
		if len(f) != 3 {
			return bad()
		}
		ti := terminfo.VerifEntries()[f[2]]
		if ti == nil {
			return h.Result{Obs: "same same same", Tags: []string{"within:no-such-entry"}}
		}
		vals := map[tcell.Color]int32{}
		for k, v := range tcell.ColorValues {
			vals[k] = v
		}
		names := map[string]tcell.Color{}
		for k, v := range tcell.ColorNames {
			names[k] = v
		}
		cmp := func(when string) string {
			ok := len(vals) == len(tcell.ColorValues) && len(names) == len(tcell.ColorNames)
			var ks []uint64
			for k := range vals {
				ks = append(ks, uint64(k))
			}
			sort.Slice(ks, func(i, j int) bool { return ks[i] < ks[j] })
			for _, k := range ks {
				c := tcell.Color(k)
				if v, in := tcell.ColorValues[c]; !in || v != vals[c] {
					if ok {
						add("table-changed-by-screen", "%s a %s screen (%d colours): ColorValues[palette %d] = %06x, it was %06x before the screen existed", when, f[2], ti.Colors, k&0xffffffff, uint32(v), uint32(vals[c]))
					}
					ok = false
				}
			}
			for n, c := range names {
				if tcell.ColorNames[n] != c {
					if ok {
						add("table-changed-by-screen", "%s a %s screen: ColorNames[%q] changed", when, f[2], n)
					}
					ok = false
				}
			}
			if !ok && len(res.Findings) == 0 {
				add("table-changed-by-screen", "%s a %s screen: the colour tables changed size", when, f[2])
			}
			if ok {
				return "same"
			}
			return "changed"
		}
		tic := *ti
		tty := NewFakeTty(20, 5)
		scr, err := tcell.NewTerminfoScreenFromTtyTerminfo(tty, &tic)
		if err != nil || scr.Init() != nil {
			return h.Result{Obs: "same same same", Tags: []string{"within:init-failed"}}
		}
		a := cmp("after Init of")
		for i, c := range []tcell.Color{tcell.ColorRed, tcell.NewRGBColor(18, 52, 86), tcell.PaletteColor(100), tcell.ColorRebeccaPurple, tcell.PaletteColor(80)} {
			scr.SetContent(i, 0, 'x', nil, tcell.StyleDefault.Foreground(c).Background(tcell.PaletteColor(17+i)))
		}
		scr.Show()
		scr.Sync()
		b := cmp("after drawing on")
		scr.Fini()
		res.Obs = a + " " + b + " " + cmp("after Fini of")
		res.Tags = append(res.Tags, fmt.Sprintf("within:%d-colours", ti.Colors))
		return res
	case "conv":
		if len(f) != 3 {
			return bad()
		}
		c := tcell.Color(h.Atou(f[2]))
		v, rg, hx := c.Valid(), c.IsRGB(), c.Hex()
		r, g, b := c.RGB()
		tc, css, name := c.TrueColor(), c.CSS(), c.Name()
		named := name != ""
		res.Obs = fmt.Sprintf("v=%s rgbf=%s hex=%d rgb=%d,%d,%d tc=%d css=%s named=%s", b01(v), b01(rg), hx, r, g, b, uint64(tc), h.Hex([]byte(css)), b01(named))
		if named && tcell.ColorNames[name] != c {
			add("name-inconsistent", "Color(%d).Name() = %q but ColorNames[%q] = %d", uint64(c), name, name, uint64(tcell.ColorNames[name]))
		}
		switch {
		case c == tcell.ColorDefault || c == tcell.ColorReset || c == tcell.ColorNone:
			res.Tags = append(res.Tags, "conv:default/special")
			if v {
				add("special-valid", "default/special colour %d reports Valid()", uint64(c))
			}
		case !v:
			res.Tags = append(res.Tags, "conv:invalid")
		case hx < 0:
			res.Tags = append(res.Tags, "conv:valid-unmapped(out of statement)")
		case rg:
			res.Tags = append(res.Tags, "conv:rgb")
		default:
			res.Tags = append(res.Tags, "conv:palette/named")
		}
		if !v {
			// "default, invalid and special colours report not-valid and -1": through every conversion of the statement
			if hx != -1 || r != -1 || g != -1 || b != -1 {
				add("invalid-not-minus1", "colour %d is not valid but Hex()=%d RGB()=%d,%d,%d (want -1)", uint64(c), hx, r, g, b)
			}
			if tr, tg, tb := tc.RGB(); tc.Valid() || tc.Hex() != -1 || tr != -1 || tg != -1 || tb != -1 {
				add("invalid-truecolor-valid", "colour %d (%s) is not valid but TrueColor()=%d reports Valid()=%v Hex()=%d RGB()=%d,%d,%d (want not valid, -1)", uint64(c), flagStr(c), uint64(tc), tc.Valid(), tc.Hex(), tr, tg, tb)
			}
			if css != "" && tcell.GetColor(css).Valid() {
				add("invalid-css-colour", "colour %d (%s) is not valid but CSS()=%q names the colour %d", uint64(c), flagStr(c), css, uint64(tcell.GetColor(css)))
			}
			if rg {
				add("invalid-isrgb", "colour %d (%s) is not valid but IsRGB() is true", uint64(c), flagStr(c))
			}
		} else if hx >= 0 {
			if hx > 0xffffff || r != (hx>>16)&0xff || g != (hx>>8)&0xff || b != hx&0xff {
				add("rgb-hex-mismatch", "colour %d: Hex()=%#x RGB()=%d,%d,%d", uint64(c), hx, r, g, b)
			}
			if x := tcell.NewRGBColor(r, g, b); x.Hex() != hx || x != tcell.NewHexColor(hx) {
				add("roundtrip", "colour %d: NewRGBColor(RGB()).Hex()=%#x, Hex()=%#x", uint64(c), x.Hex(), hx)
			}
			if x := tcell.NewHexColor(hx); x.Hex() != hx || !x.Valid() || !x.IsRGB() {
				add("roundtrip", "colour %d: NewHexColor(Hex()).Hex()=%#x, Hex()=%#x", uint64(c), x.Hex(), hx)
			}
			if !tc.Valid() || !tc.IsRGB() || tc.Hex() != hx || tc.TrueColor() != tc {
				add("truecolor", "colour %d (hex %#x): TrueColor()=%d with Hex()=%#x, TrueColor().TrueColor()=%d", uint64(c), hx, uint64(tc), tc.Hex(), uint64(tc.TrueColor()))
			}
			if !rg && tc != tcell.NewHexColor(hx) {
				add("truecolor", "palette/named colour %d (hex %#x): TrueColor()=%d, want the RGB-flagged value %d", uint64(c), hx, uint64(tc), uint64(tcell.NewHexColor(hx)))
			}
			want := "#" + strings.ToUpper(fmt.Sprintf("%06x", uint32(hx)))
			// junk bits (24-31, 35-63) of an RGB-flagged value survive TrueColor(); such values are not produced by any
			// constructor on in-range arguments and are outside the statement: only the CSS text is checked for them
			canonical := !rg || c == tcell.ColorIsRGB|tcell.ColorValid|tcell.Color(hx)
			if !canonical {
				res.Tags = append(res.Tags, "conv:rgb-with-extra-bits(out of statement)")
			}
			// the statement asks for an exact round trip, not for a letter case: compare the text case-insensitively
			if !strings.EqualFold(css, want) || (canonical && tcell.GetColor(css) != tc) {
				add("css-roundtrip", "colour %d (hex %#x): CSS()=%q (want %q), GetColor(CSS())=%d, TrueColor()=%d", uint64(c), hx, css, want, uint64(tcell.GetColor(css)), uint64(tc))
			}
		}
	case "newrgb":
		if len(f) != 5 {
			return bad()
		}
		r, g, b := int32(atoi64(f[2])), int32(atoi64(f[3])), int32(atoi64(f[4]))
		c := tcell.NewRGBColor(r, g, b)
		res.Obs = strconv.FormatUint(uint64(c), 10)
		if r >= 0 && r < 256 && g >= 0 && g < 256 && b >= 0 && b < 256 {
			res.Tags = append(res.Tags, "newrgb:in-range")
			r2, g2, b2 := c.RGB()
			if r2 != r || g2 != g || b2 != b || !c.Valid() || !c.IsRGB() || c.Hex() != r<<16|g<<8|b {
				add("newrgb-roundtrip", "NewRGBColor(%d,%d,%d)=%d: RGB()=%d,%d,%d Hex()=%#x Valid=%v IsRGB=%v", r, g, b, uint64(c), r2, g2, b2, c.Hex(), c.Valid(), c.IsRGB())
			}
		} else {
			res.Tags = append(res.Tags, "newrgb:out-of-range(out of statement)")
		}
	case "newhex":
		if len(f) != 3 {
			return bad()
		}
		v := int32(atoi64(f[2]))
		c := tcell.NewHexColor(v)
		res.Obs = strconv.FormatUint(uint64(c), 10)
		if v >= 0 && v <= 0xffffff {
			res.Tags = append(res.Tags, "newhex:24bit")
			if c.Hex() != v || !c.Valid() || !c.IsRGB() || c != tcell.ColorIsRGB|tcell.ColorValid|tcell.Color(v) {
				add("newhex-roundtrip", "NewHexColor(%#x)=%d: Hex()=%#x Valid=%v IsRGB=%v", v, uint64(c), c.Hex(), c.Valid(), c.IsRGB())
			}
		} else {
			res.Tags = append(res.Tags, "newhex:outside-24bit(out of statement)")
		}
	case "pal":
		if len(f) != 3 {
			return bad()
		}
		i := int(atoi64(f[2]))
		c := tcell.PaletteColor(i)
		res.Obs = strconv.FormatUint(uint64(c), 10)
		if i >= 0 && i < 256 {
			res.Tags = append(res.Tags, "pal:0-255")
			want := xtermRef(i)
			r, g, b := c.RGB()
			if !c.Valid() || c.IsRGB() || c.Hex() != want || r != want>>16 || g != (want>>8)&0xff || b != want&0xff {
				add("palette-wrong", "PaletteColor(%d): Hex()=%#06x RGB()=%d,%d,%d, xterm value is %#06x (Valid=%v IsRGB=%v)", i, c.Hex(), r, g, b, want, c.Valid(), c.IsRGB())
			}
			if tc := c.TrueColor(); tc != tcell.NewHexColor(want) && c.Hex() == want {
				add("truecolor", "PaletteColor(%d).TrueColor()=%d, want %d", i, uint64(tc), uint64(tcell.NewHexColor(want)))
			}
		} else {
			res.Tags = append(res.Tags, "pal:other(out of statement)")
		}
	case "get":
		if len(f) != 3 {
			return bad()
		}
		name := string(h.Unhex(f[2]))
		c := tcell.GetColor(name)
		res.Obs = strconv.FormatUint(uint64(c), 10)
		if want, ok := cssTable[name]; ok {
			res.Tags = append(res.Tags, "get:css-name")
			if c == tcell.ColorDefault {
				add("name-missing", "GetColor(%q) = ColorDefault: the W3C colour name %q (#%06x) is not known", name, name, want)
			} else if !c.Valid() || c.Hex() != want {
				add("name-wrong", "GetColor(%q) has Hex() %#06x, CSS value is #%06x", name, c.Hex(), want)
			}
		} else if v, ok := plainHex(name); ok {
			res.Tags = append(res.Tags, "get:#rrggbb")
			if c != tcell.NewHexColor(v) || c.Hex() != v {
				add("get-hex", "GetColor(%q) = %d, want NewHexColor(%#x) = %d", name, uint64(c), v, uint64(tcell.NewHexColor(v)))
			}
		} else if _, ok := tcell.ColorNames[name]; ok {
			res.Tags = append(res.Tags, "get:non-css-name")
		} else {
			res.Tags = append(res.Tags, "get:other")
		}
	case "img":
		if len(f) != 5 {
			return bad()
		}
		r, g, b := uint32(h.Atou(f[2])), uint32(h.Atou(f[3])), uint32(h.Atou(f[4]))
		c := tcell.FromImageColor(rawImg{r, g, b, 0xffff})
		res.Obs = strconv.FormatUint(uint64(c), 10)
		if r <= 0xffff && g <= 0xffff && b <= 0xffff {
			res.Tags = append(res.Tags, "img:16bit")
			// image/color contract: channels are 16-bit; the 8-bit value of a channel is its high byte
			r2, g2, b2 := c.RGB()
			if r2 != int32(r>>8) || g2 != int32(g>>8) || b2 != int32(b>>8) || !c.Valid() || !c.IsRGB() {
				add("fromimage", "FromImageColor(RGBA()=%#x,%#x,%#x) has RGB() %d,%d,%d", r, g, b, r2, g2, b2)
			}
			if r%0x101 == 0 && g%0x101 == 0 && b%0x101 == 0 {
				res.Tags = append(res.Tags, "img:8bit-exact")
				std := tcell.FromImageColor(ic.RGBA{uint8(r >> 8), uint8(g >> 8), uint8(b >> 8), 255})
				if std != c || std != tcell.NewRGBColor(int32(r>>8), int32(g>>8), int32(b>>8)) {
					add("fromimage", "FromImageColor(color.RGBA{%d,%d,%d,255}) = %d, want %d", r>>8, g>>8, b>>8, uint64(std), uint64(c))
				}
			}
		} else {
			res.Tags = append(res.Tags, "img:over-16bit(out of statement)")
		}
	case "find":
		if len(f) != 5 {
			return bad()
		}
		c := tcell.Color(h.Atou(f[2]))
		p := parsePalSpec(f[3])
		got := tcell.FindColor(c, append([]tcell.Color(nil), p.cols...))
		res.Obs = strconv.FormatUint(uint64(got), 10)
		res.Tags = append(res.Tags, fmt.Sprintf("find:len%s", bucket(len(p.cols))))
		if p.domain && c.Valid() && c.Hex() >= 0 {
			res.Findings = append(res.Findings, checkFind(c, p, got)...)
			if len(p.cols) > 0 && got != p.cols[0] {
				res.Tags = append(res.Tags, "find:moved")
			}
		} else {
			res.Tags = append(res.Tags, "find:invalid-colour-or-member(model only)")
		}
	case "sweep", "rsweep":
		if (f[1] == "sweep" && len(f) != 6) || (f[1] == "rsweep" && len(f) != 5) {
			return bad()
		}
		p := parsePalSpec(f[2])
		var count int
		var colour func(k int) tcell.Color
		if f[1] == "sweep" {
			start, stride := int(atoi64(f[3])), int(atoi64(f[5]))
			count = int(atoi64(f[4]))
			colour = func(k int) tcell.Color { return tcell.NewHexColor(int32((start + k*stride) & 0xffffff)) }
		} else {
			seed := h.Atou(f[3])
			count = int(atoi64(f[4]))
			colour = func(k int) tcell.Color {
				z := (seed+uint64(k))*0x9E3779B97F4A7C15 + 0x632BE59BD9B4E019
				z = (z ^ (z >> 30)) * 0xBF58476D1CE4E5B9
				z = (z ^ (z >> 27)) * 0x94D049BB133111EB
				return tcell.NewHexColor(int32((z ^ (z >> 31)) & 0xffffff))
			}
		}
		res.Obs = fmt.Sprintf("SKIP swept %d colours x %d entries", count, len(p.cols))
		res.Tags = append(res.Tags, fmt.Sprintf("sweep:len%s", bucket(len(p.cols))))
		if !p.domain {
			return bad()
		}
		res.Findings = sweep(p, count, colour)
	case "dsweep":
		if len(f) != 4 {
			return bad()
		}
		p := parsePalSpec(f[2])
		if !p.domain {
			return bad()
		}
		cs := directedColours(p, int(atoi64(f[3])))
		res.Obs = fmt.Sprintf("SKIP swept %d directed colours x %d entries", len(cs), len(p.cols))
		res.Tags = append(res.Tags, fmt.Sprintf("dsweep:len%s", bucket(len(p.cols))))
		res.Findings = sweep(p, len(cs), func(k int) tcell.Color { return cs[k] })
	case "cssref":
		if len(f) != 4 {
			return bad()
		}
		res.Obs = "bad"
		if v, ok := cssTable[f[2]]; ok && int64(v) == atoi64(f[3]) {
			res.Obs = "ok"
		}
		res.Tags = append(res.Tags, "ref-table")
	case "xtermref":
		if len(f) != 4 {
			return bad()
		}
		res.Obs = "bad"
		if i := int(atoi64(f[2])); i >= 0 && i < 256 && int64(xtermRef(i)) == atoi64(f[3]) {
			res.Obs = "ok"
		}
		res.Tags = append(res.Tags, "ref-table")
	default:
		return bad()
	}
	return res
}

// sweep runs FindColor + oracle on count colours in parallel; keeps the first finding of each class (lowest k).
func sweep(p *palInfo, count int, colour func(int) tcell.Color) []h.Finding {
	nw := runtime.NumCPU()
	if nw > 16 {
		nw = 16
	}
	type hit struct {
		k int
		f h.Finding
	}
	var mu sync.Mutex
	best := map[string]hit{}
	var wg sync.WaitGroup
	for w := 0; w < nw; w++ {
		wg.Add(1)
		go func(w int) {
			defer wg.Done()
			pal := append([]tcell.Color(nil), p.cols...)
			for k := w; k < count; k += nw {
				c := colour(k)
				got := tcell.FindColor(c, pal)
				for _, f := range checkFind(c, p, got) {
					mu.Lock()
					if b, ok := best[f.Class]; !ok || k < b.k {
						best[f.Class] = hit{k, f}
					}
					mu.Unlock()
				}
			}
		}(w)
	}
	wg.Wait()
	var out []h.Finding
	for _, cl := range []string{"findcolor-empty", "findcolor-not-member", "findcolor-not-nearest", "metric-validation"} {
		if b, ok := best[cl]; ok {
			out = append(out, b.f)
		}
	}
	return out
}

func flagStr(c tcell.Color) string {
	s := fmt.Sprintf("valid=%s isrgb-bit=%s special-bit=%s payload=%#x", b01(c&tcell.ColorValid != 0), b01(c&tcell.ColorIsRGB != 0), b01(c&tcell.ColorSpecial != 0), uint64(c)&0xffffffff)
	return s
}

func bucket(n int) string {
	switch {
	case n == 0:
		return "0"
	case n <= 8:
		return "1-8"
	case n <= 16:
		return "9-16"
	case n <= 88:
		return "17-88"
	default:
		return "89+"
	}
}

func b01(b bool) string {
	if b {
		return "1"
	}
	return "0"
}

// plainHex recognises "#" + exactly six hex digits (the documented "#ffffff" format)
func plainHex(s string) (int32, bool) {
	if len(s) != 7 || s[0] != '#' {
		return 0, false
	}
	var v int32
	for i := 1; i < 7; i++ {
		c := s[i]
		switch {
		case c >= '0' && c <= '9':
			v = v<<4 | int32(c-'0')
		case c >= 'a' && c <= 'f':
			v = v<<4 | int32(c-'a'+10)
		case c >= 'A' && c <= 'F':
			v = v<<4 | int32(c-'A'+10)
		default:
			return 0, false
		}
	}
	return v, true
}

func colorGen(g *h.Gen) {
	R := g.R
	hexName := func(s string) string { return h.Hex([]byte(s)) }
	// ---- reference tables (Go copy vs Spec/Color.lean)
	for _, n := range cssNamesSorted() {
		g.Emit("color cssref %s %d", n, cssTable[n])
	}
	for i := 0; i < 256; i++ {
		g.Emit("color xtermref %d %d", i, xtermRef(i))
	}
	// ---- the tables while a screen is alive: one entry per colour count of the database + entries rotating with the seed
	{
		byColors := map[int]string{}
		var all []string
		for _, n := range primaryNames() {
			ti := terminfo.VerifEntries()[n]
			if ti == nil || strings.Contains(ti.Bell+ti.Clear+ti.EnterCA+ti.ExitCA+ti.AttrOff+ti.EnterKeypad, "$<") {
				continue // padding in the Init strings means real sleeps
			}
			all = append(all, n)
			if _, in := byColors[ti.Colors]; !in {
				byColors[ti.Colors] = n
			}
		}
		for _, n := range []string{"xterm-88color", "rxvt-88color", "xterm-256color", "xterm-16color", "xterm", "linux", "rxvt-unicode-256color", "xterm-direct"} {
			if terminfo.VerifEntries()[n] != nil {
				g.Emit("color within %s", n)
			}
		}
		for _, n := range byColors {
			g.Emit("color within %s", n)
		}
		for k := g.N(6, len(all)); k > 0 && len(all) > 0; k-- {
			g.Emit("color within %s", all[(k+int(R.Intn(len(all))))%len(all)])
		}
	}
	// ---- palette indices: all of 0..255 + outside
	for i := 0; i < 256; i++ {
		g.Emit("color pal %d", i)
	}
	for _, i := range []int64{256, 257, 300, 378, 379, 1000, 65535, 1 << 24, 1<<32 - 1, 1 << 32, 1 << 33, 1 << 34, -1, -256, math.MaxInt64, math.MinInt64} {
		g.Emit("color pal %d", i)
	}
	// ---- names: every CSS name, every tcell name, variants, #hex, malformed
	for _, n := range cssNamesSorted() {
		g.Emit("color get %s", hexName(n))
	}
	var tnames []string
	for n := range tcell.ColorNames {
		tnames = append(tnames, n)
	}
	sort.Strings(tnames)
	for _, n := range tnames {
		g.Emit("color get %s", hexName(n))
	}
	for _, s := range []string{"", "#", "Red", "RED", "red ", " red", "#ffffff", "#FFFFFF", "#000000", "#00000", "#0000000", "#-00001", "#+00001", "#-fffff", "#+fffff",
		"#0x1234", "#0X12ab", "#1_2345", "#12 345", "#gggggg", "#12345g", "#abcdef", "#ABCDEF", "#AbCdEf", "ffffff", "0xffffff", "#ffffff ", "#fffffff", "#\xc3\xa9ffff", "#\xff\xfe0000",
		"#00000\x00", "none", "default", "reset", "#------", "#++++++", "#-+0001", "#     1", "black\x00", "#７７７７"} {
		g.Emit("color get %s", hexName(s))
	}
	hexd := "0123456789abcdefABCDEF"
	for k := 0; k < g.N(400, 4000); k++ {
		b := []byte("#000000")
		for i := 1; i < 7; i++ {
			b[i] = hexd[R.Intn(len(hexd))]
		}
		if R.Chance(25) { // damage it
			switch R.Intn(4) {
			case 0:
				b[R.Range(0, 6)] = byte(R.Intn(256))
			case 1:
				b = b[:R.Range(0, 6)]
			case 2:
				b = append(b, hexd[R.Intn(len(hexd))])
			case 3:
				b[1] = "+-_ x"[R.Intn(5)]
			}
		}
		g.Emit("color get %s", hexName(string(b)))
	}
	// ---- conv: all table keys, palette, specials, boundaries, random
	var keys []uint64
	for c := range tcell.ColorValues {
		keys = append(keys, uint64(c))
	}
	sort.Slice(keys, func(i, j int) bool { return keys[i] < keys[j] })
	for _, k := range keys {
		g.Emit("color conv %d", k)
	}
	V, RGBF, SP := uint64(tcell.ColorValid), uint64(tcell.ColorIsRGB), uint64(tcell.ColorSpecial)
	for _, c := range []uint64{0, 1, 255, 256, V, RGBF, SP, SP | 1, SP | 2, V | RGBF, V | RGBF | 0xffffff, V | RGBF | 0x1000000, RGBF | 0x123456, V | SP, V | SP | 1, V | RGBF | SP | 0x10203,
		V | 255, V | 256, V | 378, V | 379, V | 0xffffff, V | 0xffffffff, math.MaxUint64, math.MaxUint64 &^ V, 1 << 63, V | 1<<63, V | RGBF | 1<<40 | 0xabcdef, 0xffffff, 0x1000000} {
		g.Emit("color conv %d", c)
	}
	// not-valid colours with every combination of the other flag bits over assorted payloads (hand-built values, valid
	// colours with the Valid bit stripped, special values with stray bits)
	pay := []uint64{0, 1, 2, 7, 8, 15, 16, 255, 256, 378, 0x123456, 0xffffff, 0x1000000, 0xffffffff}
	for k := 0; k < 6; k++ {
		pay = append(pay, R.U64()&0xffffff, uint64(h.Pick(R, keys))&0xffffffff)
	}
	for _, pl := range pay {
		for fl := uint64(0); fl < 4; fl++ {
			c := pl
			if fl&1 != 0 {
				c |= RGBF
			}
			if fl&2 != 0 {
				c |= SP
			}
			g.Emit("color conv %d", c)
			if R.Chance(25) {
				g.Emit("color conv %d", c|(R.U64()&^(V|0xffffffff))) // stray high bits as well
			}
		}
	}
	for k := 0; k < g.N(3000, 60000); k++ {
		var c uint64
		switch R.Intn(8) {
		case 0, 1, 2:
			c = V | RGBF | (R.U64() & 0xffffff)
		case 3:
			c = V | uint64(R.Intn(400))
		case 4:
			c = R.U64()
		case 5:
			c = R.U64() & (V | RGBF | SP | 0xffffff)
		case 6:
			c = (R.U64() & 0xffffffff) | V | (R.U64() & RGBF)
		case 7:
			c = (V | RGBF | (R.U64() & 0xffffff)) ^ (1 << uint(R.Intn(64)))
		}
		g.Emit("color conv %d", c)
	}
	// ---- NewRGBColor / NewHexColor / FromImageColor
	b8 := []int64{0, 1, 127, 128, 254, 255}
	for _, r := range b8 {
		for _, gg := range b8 {
			for _, b := range b8 {
				g.Emit("color newrgb %d %d %d", r, gg, b)
			}
		}
	}
	odd := []int64{-1, -128, -255, -256, -257, 256, 257, 511, 65535, 1 << 24, math.MaxInt32, math.MinInt32}
	for k := 0; k < g.N(2000, 40000); k++ {
		v := [3]int64{int64(R.Intn(256)), int64(R.Intn(256)), int64(R.Intn(256))}
		if R.Chance(20) {
			v[R.Intn(3)] = h.Pick(R, odd)
		}
		if R.Chance(5) {
			v[R.Intn(3)] = int64(int32(R.U64()))
		}
		g.Emit("color newrgb %d %d %d", v[0], v[1], v[2])
	}
	for _, v := range []int64{0, 1, 255, 256, 0xffff, 0x10000, 0xfffffe, 0xffffff, 0x1000000, 0x1000001, math.MaxInt32, -1, -2, -0xffffff, -0x1000000, math.MinInt32} {
		g.Emit("color newhex %d", v)
	}
	for k := 0; k < g.N(2000, 40000); k++ {
		v := int64(R.U64() & 0xffffff)
		if R.Chance(10) {
			v = int64(int32(R.U64()))
		}
		g.Emit("color newhex %d", v)
	}
	for k := 0; k < g.N(1500, 30000); k++ {
		var v [3]uint64
		for i := range v {
			switch R.Intn(4) {
			case 0:
				v[i] = uint64(R.Intn(256)) * 0x101
			case 1, 2:
				v[i] = R.U64() & 0xffff
			case 3:
				v[i] = h.Pick(R, []uint64{0, 0xff, 0x100, 0xffff, 0x10000, 0xffffff, 0x1000000, 0xffffffff, 0x80000000})
			}
		}
		if R.Chance(40) {
			for i := range v {
				v[i] = uint64(R.Intn(256)) * 0x101
			}
		}
		g.Emit("color img %d %d %d", v[0], v[1], v[2])
	}
	// ---- FindColor: model correspondence lines (distances on the line)
	randRGB := func() tcell.Color { return tcell.NewHexColor(int32(R.U64() & 0xffffff)) }
	randValid := func() tcell.Color {
		switch R.Intn(4) {
		case 0:
			return tcell.PaletteColor(R.Intn(256))
		case 1:
			return tcell.Color(h.Pick(R, keys))
		default:
			return randRGB()
		}
	}
	xpal := func(n int) []tcell.Color {
		var cs []tcell.Color
		for i := 0; i < n; i++ {
			cs = append(cs, tcell.PaletteColor(i))
		}
		return cs
	}
	randPal := func(maxLen int) []tcell.Color {
		n := R.Range(1, maxLen)
		cs := make([]tcell.Color, n)
		for i := range cs {
			cs[i] = randValid()
		}
		if R.Chance(30) && n > 1 { // members a step or two apart in RGB (closer to each other than any tolerance one may think of)
			for k := 0; k < 1+n/4; k++ {
				i, j := R.Intn(n), R.Intn(n)
				if hx := cs[j].Hex(); i != j && hx >= 0 {
					v := hx
					for sh := uint(0); sh < 24; sh += 8 {
						ch := int32((hx>>sh)&0xff) + int32(R.Range(-2, 2))
						if ch < 0 {
							ch = 0
						} else if ch > 255 {
							ch = 255
						}
						v = v&^(0xff<<sh) | ch<<sh
					}
					cs[i] = tcell.NewHexColor(v)
				}
			}
		}
		if R.Chance(30) && n > 1 { // duplicates / equal-distance members (a palette colour and its RGB twin)
			for k := 0; k < 1+n/4; k++ {
				i, j := R.Intn(n), R.Intn(n)
				if R.Bool() {
					cs[i] = cs[j]
				} else {
					cs[i] = cs[j].TrueColor()
				}
			}
		}
		return cs
	}
	g.Emit("%s", findLine(randRGB(), nil))
	g.Emit("%s", findLine(tcell.ColorDefault, nil))
	for k := 0; k < g.N(1200, 12000); k++ {
		var cols []tcell.Color
		switch R.Intn(10) {
		case 0, 1:
			cols = xpal(8)
		case 2, 3:
			cols = xpal(16)
		case 4:
			if R.Chance(30) {
				cols = xpal(256)
			} else {
				cols = xpal(88)
			}
		default:
			cols = randPal(24)
		}
		c := randValid()
		if R.Chance(15) && len(cols) > 0 { // exact member / near member
			c = h.Pick(R, cols)
			if R.Bool() {
				c = c.TrueColor()
			}
		}
		if R.Chance(15) && len(cols) > 0 { // a step away from a member
			if hx := h.Pick(R, cols).Hex(); hx >= 0 {
				c = tcell.NewHexColor(hx ^ (1 << uint(R.Intn(24)) & 0x030303))
			}
		}
		g.Emit("%s", findLine(c, cols))
	}
	// outside the statement (model correspondence only): ColorDefault / invalid / unmapped members or colour
	weird := []tcell.Color{tcell.ColorDefault, tcell.ColorReset, tcell.ColorNone, tcell.PaletteColor(300), tcell.Color(7), tcell.ColorIsRGB | 0x102030}
	for k := 0; k < g.N(300, 3000); k++ {
		cols := randPal(10)
		for j := 0; j < 1+R.Intn(3); j++ {
			cols[R.Intn(len(cols))] = h.Pick(R, weird)
		}
		if R.Chance(50) {
			cols[R.Intn(len(cols))] = tcell.ColorDefault
		}
		c := randValid()
		if R.Chance(30) {
			c = h.Pick(R, weird)
		}
		g.Emit("%s", findLine(c, cols))
	}
	// ---- FindColor: oracle sweeps
	specs := []string{"x8", "x16", "x88", "x256"}
	if g.Thorough() {
		for _, s := range specs {
			for start := 0; start < 1<<24; start += 1 << 20 {
				g.Emit("color sweep %s %d %d 1", s, start, 1<<20)
			}
		}
	} else {
		for _, s := range specs {
			g.Emit("color rsweep %s %d %d", s, R.U64()>>1, 1<<16)
			// a lattice through the cube as well: stride 257 is coprime to 2^24
			g.Emit("color sweep %s %d %d %d", s, R.Intn(1<<24), 1<<13, 2*R.Intn(1<<20)+1)
		}
	}
	// directed colours: every pair of members of the four standard palettes; nearest-neighbour pairs for the random ones
	g.Emit("color dsweep x8 0")
	g.Emit("color dsweep x16 0")
	g.Emit("color dsweep x88 0")
	g.Emit("color dsweep x256 0")
	for k := 0; k < g.N(50, 400); k++ {
		cols := randPal(h.Pick(R, []int{4, 16, 40, 120}))
		g.Emit("color rsweep %s %d %d", showCols(cols), R.U64()>>1, g.N(1024, 16384))
		g.Emit("color dsweep %s %d", showCols(cols), g.N(8, 0))
	}
}

func init() {
	h.Register(&h.Engine{
		Name: "color",
		Rule: "a case is one call of a colour conversion / table lookup / FindColor on a distinct input (sweep lines: one line = a block of FindColor calls checked by the oracle only)",
		Gen:  colorGen,
		Exec: colorExec,
	})
}
