package engines

import (
	"bytes"
	"fmt"
	"os"
	"sort"
	"strings"
	"unicode/utf8"

	"github.com/gdamore/tcell/v2"
	_ "github.com/gdamore/tcell/v2/encoding"
	"github.com/gdamore/tcell/v2/terminfo"
	runewidth "github.com/mattn/go-runewidth"
	"golang.org/x/text/transform"
	"verif/harness/h"
)

// Engines enc and acs — C17.
//
// enc line:  enc cfg <pp|rr|…> <entry> <charset> <tw>; op; op; …
//   D x main comb E        draw one cell (main + combining) at column x of row 0, observe the payload bytes   → d:<hex>
//   B x r0 step n E        for i<n: draw rune r0+i*step alone at column x, then CanDisplay(r,false/true)       → b:<hex>/<cd0><cd1>,…
//   C r flag E             CanDisplay(r, flag)                                                                  → c:0|1
//   R r hex | U r          RegisterRuneFallback / UnregisterRuneFallback
//   X                      switch to the OTHER screen of the case (same entry, charset and width on its own tty; it is created
//                          and initialised at the first X): every op acts on the current screen only, each screen starts
//                          with the default fallbacks (runes.go RuneFallbacks as shipped) — "RegisterRuneFallback /
//                          UnregisterRuneFallback take effect at the next draw" of THAT screen
// E lists, for the runes of the op in order, what the charset's encoder reports when called **directly** (not through
// tcell's draw code): hex of nb[:dst], "!" appended when it returned an error.  The Lean model is evaluated with these values.
// The screen is a real terminfo screen on a FakeTty; the charset comes from LC_ALL (Init reads the environment).
// The payload is located in the Show block by comparing with two reference draws ('#' and '%') at the same column.
//
// acs line:  acs <ppp|rrp|rrs|…> <entry>      → the map VerifAcsMap(entry) builds, sorted.
//            acs <…> syn:<acsc hex>:<smacs hex>:<rmacs hex>   the same for a synthetic description (padding forms the database
//            does not have: in the middle of smacs, `$<` that is not a padding specification, unterminated, `*` `/` flags)
//
// The first two p|r letters say which side of the two known defect sites of buildAcsMap (`for len(acsstr) > 2`; `string(acsstr[1])`
// of a byte ≥ 0x80) the tree under test is on, the third (p|s) whether it removes padding specifications from smacs/rmacs
// (fixes/C17-acs-strip-padding.patch); the generator
// determines it by probing buildAcsMap on a synthetic entry, so that the model variant compared is the one the code
// implements and a repaired tree still corresponds.  The oracle does not look at it.
//
// Oracle (from the property text): expected payload = the library's encoding of the rune if it round-trips through the
// charset's decoder; else smacs+d+rmacs if the entry's acsc has a pair (n,d) whose terminfo(5) name n denotes the rune;
// else the registered fallback; else "?" ("? " for a wide rune); " " for a wide rune in the last column.

// Charsets: every stateless charset registered by encoding/all.go (all but ISO2022JP and the HZ coder registered as GB2312)
// plus US-ASCII and UTF-8.
var c17Charsets = []string{"ISO8859-1", "US-ASCII", "UTF-8", "GBK", "ISO8859-2", "KOI8-R", "EUC-JP", "SHIFT_JIS", "Big5", "EUC-KR", "GB18030",
	"ISO8859-3", "ISO8859-4", "ISO8859-5", "ISO8859-6", "ISO8859-7", "ISO8859-8", "ISO8859-9", "ISO8859-10", "ISO8859-13", "ISO8859-14",
	"ISO8859-15", "ISO8859-16", "KOI8-U"}

// terminfo(5) "Line Graphics" table: acsc name → glyph, expressed with tcell's exported Rune* constants (runes.go says
// they are named after the curses ACS_* symbols).  Written from the man page, independent of vtACSNames.
var termAcsGlyph = map[byte]rune{
	'+': tcell.RuneRArrow, ',': tcell.RuneLArrow, '-': tcell.RuneUArrow, '.': tcell.RuneDArrow, '0': tcell.RuneBlock,
	'`': tcell.RuneDiamond, 'a': tcell.RuneCkBoard, 'f': tcell.RuneDegree, 'g': tcell.RunePlMinus, 'h': tcell.RuneBoard,
	'i': tcell.RuneLantern, 'j': tcell.RuneLRCorner, 'k': tcell.RuneURCorner, 'l': tcell.RuneULCorner, 'm': tcell.RuneLLCorner,
	'n': tcell.RunePlus, 'o': tcell.RuneS1, 'p': tcell.RuneS3, 'q': tcell.RuneHLine, 'r': tcell.RuneS7, 's': tcell.RuneS9,
	't': tcell.RuneLTee, 'u': tcell.RuneRTee, 'v': tcell.RuneBTee, 'w': tcell.RuneTTee, 'x': tcell.RuneVLine,
	'y': tcell.RuneLEqual, 'z': tcell.RuneGEqual, '{': tcell.RunePi, '|': tcell.RuneNEqual, '}': tcell.RuneSterling, '~': tcell.RuneBullet,
}

// runes for which terminfo(5) defines nothing but VT100 terminals have glyphs (names b c d e): the oracle accepts either outcome
var acsVt100Only = map[rune]bool{0x2409: true, 0x240a: true, 0x240b: true, 0x240c: true, 0x240d: true}

// the default fallback table as shipped (runes.go), copied before any screen exists: what every new screen starts with
var defaultRuneFallbacks = func() map[rune]string {
	m := map[rune]string{}
	for k, v := range tcell.RuneFallbacks {
		m[k] = v
	}
	return m
}()

type codec struct {
	enc, dec transform.Transformer
	utf8     bool
}

// newCodec: the reference encoder / decoder of a charset NAME.  It comes from the harness's own name table
// (refcharsets.go), never from tcell.GetEncoding: the registry of the code under test is part of what is judged (a name
// registered with another charset's table).  nil when the name is unknown to either side.
func newCodec(charset string) *codec {
	e := refEncoding(charset)
	if e == nil || tcell.GetEncoding(charset) == nil {
		return nil
	}
	return &codec{enc: e.NewEncoder(), dec: e.NewDecoder(), utf8: refIsUTF8(charset)}
}

// encode calls the external encoder directly, exactly like encoder.Transform(nb, utf8(r), true) on a fresh buffer.
func (c *codec) encode(r rune) (out []byte, failed bool) {
	nb := make([]byte, 12)
	ob := make([]byte, 6)
	n := utf8.EncodeRune(ob, r)
	c.enc.Reset()
	dst, _, err := c.enc.Transform(nb, ob[:n], true)
	return nb[:dst], err != nil
}

func (c *codec) encStr(r rune) string {
	out, failed := c.encode(r)
	s := h.Hex(out)
	if failed {
		s += "!"
	}
	return s
}

// decodeAll decodes a byte string with the charset's decoder.
func (c *codec) decodeAll(b []byte) (string, bool) {
	c.dec.Reset()
	out, _, err := transform.Bytes(c.dec, b)
	return string(out), err == nil
}

// ambiguous: the library encodes the rune without complaint but its own decoder does not map the bytes back to it
// (x/text GB18030 private-use mappings): the oracle gives no verdict on such runes.
func (c *codec) ambiguous(r rune) bool {
	if r < 0 || r > 0x10ffff || (r >= 0xd800 && r < 0xe000) {
		return false
	}
	out, failed := c.encode(r)
	if failed || len(out) == 0 || (len(out) == 1 && out[0] == 0x1a) {
		return false
	}
	s, ok := c.decodeAll(out)
	return !ok || s != string(r)
}

// representable: the rune has an encoding in the charset that decodes back to it (the property's "if representable").
func (c *codec) representable(r rune) ([]byte, bool) {
	if r < 0 || r > 0x10ffff || (r >= 0xd800 && r < 0xe000) {
		return nil, false
	}
	out, failed := c.encode(r)
	if failed || len(out) == 0 {
		return nil, false
	}
	s, ok := c.decodeAll(out)
	if !ok || s != string(r) {
		return nil, false
	}
	return out, true
}

func acsPairs(ti *terminfo.Terminfo) [][2]byte {
	var ps [][2]byte
	for i := 0; i+1 < len(ti.AltChars); i += 2 {
		ps = append(ps, [2]byte{ti.AltChars[i], ti.AltChars[i+1]})
	}
	return ps
}

// stripPad removes the terminfo(5) padding specifications `$<n[.m][*][/]>` of a capability string: what must not reach the
// terminal as bytes (terminfo(5) "Delays and Padding": a number with at most one decimal place, optionally followed by `*`
// and/or `/`).  A `$<` that does not start such a specification is ordinary text.  Written from the man page (a scanner
// over positions), independent of terminfo.TPuts.
func stripPad(s string) string {
	var out []byte
	for i := 0; i < len(s); {
		if n := padSpecLen(s[i:]); n > 0 {
			i += n
			continue
		}
		out = append(out, s[i])
		i++
	}
	return string(out)
}

// padSpecLen: length of the padding specification s starts with, 0 if it does not start with one.
func padSpecLen(s string) int {
	if !strings.HasPrefix(s, "$<") {
		return 0
	}
	i, digits := 2, 0
	for i < len(s) && s[i] >= '0' && s[i] <= '9' {
		i, digits = i+1, digits+1
	}
	if digits == 0 {
		return 0
	}
	if i < len(s) && s[i] == '.' {
		i++
		for i < len(s) && s[i] >= '0' && s[i] <= '9' {
			i++
		}
	}
	for i < len(s) && (s[i] == '*' || s[i] == '/') {
		i++
	}
	if i < len(s) && s[i] == '>' {
		return i + 1
	}
	return 0
}

// acsExpected: the ACS strings the entry provides for rune r (one per acsc pair naming it), and whether the only
// providing pair is the last pair of the acsc string.
func acsExpected(ti *terminfo.Terminfo, r rune) (want []string, lastOnly bool) {
	ps := acsPairs(ti)
	lastOnly = true
	for i, p := range ps {
		if g, ok := termAcsGlyph[p[0]]; ok && g == r {
			want = append(want, ti.EnterAcs+string(p[1:2])+ti.ExitAcs)
			if i != len(ps)-1 {
				lastOnly = false
			}
		}
	}
	return want, lastOnly && len(want) > 0
}

// acsStripped: w = EnterAcs + d + ExitAcs (from acsExpected) with the padding specifications of the two capability strings removed
func acsStripped(ti *terminfo.Terminfo, w string) string {
	return stripPad(ti.EnterAcs) + w[len(ti.EnterAcs):len(w)-len(ti.ExitAcs)] + stripPad(ti.ExitAcs)
}

// acsHighByte: got is smacs + UTF-8(U+00dd) + rmacs (+ tail) for a pair (n,d) naming r with d >= 0x80
func acsHighByte(ti *terminfo.Terminfo, r rune, got string) bool {
	for _, p := range acsPairs(ti) {
		if g, ok := termAcsGlyph[p[0]]; ok && g == r && p[1] >= 0x80 && strings.HasPrefix(got, ti.EnterAcs+string(rune(p[1]))+ti.ExitAcs) {
			return true
		}
	}
	return false
}

type encRun struct {
	scr    tcell.Screen
	tty    *FakeTty
	ti     *terminfo.Terminfo
	cd     *codec
	tw     int
	refs   map[int][2][]byte // column → (prefix, suffix) of a Show block that draws exactly that cell
	fb     map[rune]string   // oracle shadow of the registered fallbacks
	res    *h.Result
	tags   map[string]bool
	broken string
}

func (e *encRun) finding(class, format string, a ...interface{}) {
	if len(e.res.Findings) < 4 {
		e.res.Findings = append(e.res.Findings, h.Finding{Class: class, Msg: fmt.Sprintf(format, a...)})
	}
}

func (e *encRun) showBlock() []byte {
	e.tty.TakeWrites()
	e.scr.Show()
	return bytes.Join(e.tty.TakeWrites(), nil)
}

// drawOne sets the cell, shows, and returns the Show block; the cell is first overwritten with a different blank
// so that it is dirty.
func (e *encRun) drawOne(x int, mainc rune, comb []rune, blank rune) []byte {
	e.scr.Fill(' ', tcell.StyleDefault) // also removes what earlier draws left in other columns
	e.scr.SetContent(x, 0, blank, nil, tcell.StyleDefault)
	e.showBlock()
	e.scr.SetContent(x, 0, mainc, comb, tcell.StyleDefault)
	return e.showBlock()
}

func (e *encRun) ref(x int) ([2][]byte, bool) {
	if r, ok := e.refs[x]; ok {
		return r, true
	}
	a := e.drawOne(x, '#', nil, ' ')
	b := e.drawOne(x, '%', nil, ' ')
	if len(a) != len(b) || len(a) == 0 {
		return [2][]byte{}, false
	}
	i := 0
	for i < len(a) && a[i] == b[i] {
		i++
	}
	if i >= len(a) || a[i] != '#' || b[i] != '%' || !bytes.Equal(a[i+1:], b[i+1:]) {
		return [2][]byte{}, false
	}
	r := [2][]byte{a[:i], a[i+1:]}
	e.refs[x] = r
	return r, true
}

// payload draws the cell and extracts the payload bytes.
func (e *encRun) payload(x int, mainc rune, comb []rune) ([]byte, bool) {
	rf, ok := e.ref(x)
	if !ok {
		return nil, false
	}
	blank := rune(' ')
	if mainc == ' ' || mainc < ' ' || runewidth.RuneWidth(mainc) == 0 {
		blank = '#'
	}
	blk := e.drawOne(x, mainc, comb, blank)
	if len(blk) < len(rf[0])+len(rf[1]) || !bytes.HasPrefix(blk, rf[0]) || !bytes.HasSuffix(blk, rf[1]) {
		return blk, false
	}
	return blk[len(rf[0]) : len(blk)-len(rf[1])], true
}

// expected payload per the property statement.
func (e *encRun) expected(x int, mainc rune, comb []rune) (want []string, why string, lastOnly bool) {
	width := runewidth.RuneWidth(mainc)
	if width == 0 || mainc < ' ' {
		mainc, width = ' ', 1
	}
	if x > e.tw-width {
		return []string{" "}, "last-column", false
	}
	var heads []string
	if out, ok := e.cd.representable(mainc); ok {
		heads, why = []string{string(out)}, "encoded"
	} else if acs, lo := acsExpected(e.ti, mainc); len(acs) > 0 {
		for _, a := range acs {
			heads = append(heads, stripPad(a))
		}
		why, lastOnly = "acs", lo
	} else if fb, ok := e.fb[mainc]; ok {
		heads, why = []string{fb}, "fallback"
	} else if width > 1 {
		heads, why = []string{"? "}, "question-wide"
	} else {
		heads, why = []string{"?"}, "question"
	}
	tail := ""
	for _, c := range comb {
		if out, ok := e.cd.representable(c); ok {
			tail += string(out)
		}
	}
	for _, hd := range heads {
		want = append(want, hd+tail)
		if why == "question-wide" && tail != "" {
			want = append(want, "?"+tail+" ") // any order of the padding blank occupies the width
		}
	}
	return want, why, lastOnly
}

func (e *encRun) judge(x int, mainc rune, comb []rune, got []byte) {
	if mainc < 0 || mainc > 0x10ffff || (mainc >= 0xd800 && mainc < 0xe000) {
		return // not a Unicode scalar value: outside the property's quantifier
	}
	for _, c := range comb {
		if c < ' ' || c > 0x10ffff || (c >= 0xd800 && c < 0xe000) || (c >= 0x7f && c < 0xa0) || runewidth.RuneWidth(c) != 0 {
			return // only zero-width runes are "combining content" in the sense of the property
		}
	}
	if e.cd.ambiguous(mainc) {
		return
	}
	for _, c := range comb {
		if e.cd.ambiguous(c) {
			return
		}
	}
	want, why, lastOnly := e.expected(x, mainc, comb)
	e.tags[why] = true
	for _, w := range want {
		if string(got) == w {
			return
		}
	}
	if acsVt100Only[mainc] {
		return
	}
	desc := fmt.Sprintf("entry %s charset %s column %d/%d rune U+%04X comb %v: payload %q, expected (%s) %q", e.ti.Name, e.scrCharset(), x, e.tw, mainc, comb, got, why, want)
	switch {
	case why == "acs" && acsHighByte(e.ti, mainc, string(got)):
		e.finding("acs-high-byte-utf8", "%s — the terminal's ACS character is a byte >= 0x80 and is written UTF-8 encoded", desc)
	case why == "acs" && len(want) > 0 && strings.Contains(e.ti.EnterAcs+e.ti.ExitAcs, "$<") && strings.Contains(string(got), "$<"):
		e.finding("acs-padding-literal", "%s — the padding specification of smacs/rmacs is written to the terminal verbatim", desc)
	case why == "acs" && lastOnly:
		e.finding("acs-last-pair-dropped", "%s — the acsc pair naming this rune is the last pair of the string", desc)
	case !e.cd.utf8 && len(got) > 0 && got[0] == 0x1a:
		e.finding("subst-byte", "%s", desc)
	case !e.cd.utf8 && mainc >= 0x80 && bytes.HasPrefix(got, []byte(string(mainc))) && why != "encoded":
		e.finding("raw-utf8", "%s", desc)
	case why == "question-wide" && len(comb) > 0 && string(got) == "?"+want[0][2:]:
		e.finding("wide-question-comb-unpadded", "%s — a wide cell whose main rune is shown as '?' is not padded to two columns when an encodable combining rune follows", desc)
	default:
		e.finding("chain-"+why, "%s", desc)
	}
}

func (e *encRun) scrCharset() string { return e.scr.CharacterSet() }

func (e *encRun) judgeCanDisplay(r rune, flag bool, got bool) {
	if r < ' ' || r > 0x10ffff || (r >= 0xd800 && r < 0xe000) || acsVt100Only[r] || e.cd.ambiguous(r) {
		return
	}
	_, rep := e.cd.representable(r)
	acs, lastOnly := acsExpected(e.ti, r)
	want := rep || len(acs) > 0
	if flag {
		if _, ok := e.fb[r]; ok {
			want = true
		}
	}
	if got != want {
		desc := fmt.Sprintf("entry %s charset %s: CanDisplay(U+%04X,%v)=%v, expected %v (representable=%v, acs glyph=%v)", e.ti.Name, e.scrCharset(), r, flag, got, want, rep, len(acs) > 0)
		if !rep && lastOnly && !got {
			e.finding("acs-last-pair-dropped", "%s — the acsc pair naming this rune is the last pair of the string", desc)
		} else {
			e.finding("candisplay", "%s", desc)
		}
	}
}

func cb01(b bool) string {
	if b {
		return "1"
	}
	return "0"
}

func execEnc(line string) h.Result {
	var res h.Result
	ops := h.SplitTrim(strings.TrimPrefix(line, "enc "), ";")
	if len(ops) == 0 {
		res.Obs = "bad-case"
		return res
	}
	cf := strings.Fields(ops[0])
	if len(cf) != 5 || cf[0] != "cfg" {
		res.Obs = "bad-case"
		return res
	}
	src := terminfo.VerifEntries()[cf[2]]
	if src == nil {
		res.Obs = "no-entry"
		return res
	}
	tic := *src
	charset, tw := cf[3], h.Atoi(cf[4])
	cd := newCodec(charset)
	if cd == nil {
		res.Obs = "no-charset"
		return res
	}
	os.Setenv("LC_ALL", "xx_XX."+charset)
	os.Unsetenv("LC_CTYPE")
	os.Unsetenv("LANG")
	os.Unsetenv("LINES")
	os.Unsetenv("COLUMNS")
	tty := NewFakeTty(tw, 2)
	scr, err := tcell.NewTerminfoScreenFromTtyTerminfo(tty, &tic)
	if err != nil {
		res.Obs = "init-failed"
		return res
	}
	// ops `PR r s` / `PU r` (leading ops only): RegisterRuneFallback / UnregisterRuneFallback on the constructed screen BEFORE
	// Init — "take effect at the next draw" holds for a change made at any time of the screen's life
	type preOp struct {
		r   rune
		s   string
		del bool
	}
	var pre []preOp
	for _, op := range ops[1:] {
		f := strings.Fields(op)
		if len(f) == 3 && f[0] == "PR" {
			pre = append(pre, preOp{rune(h.Atoi(f[1])), string(h.Unhex(f[2])), false})
			scr.RegisterRuneFallback(pre[len(pre)-1].r, pre[len(pre)-1].s)
		} else if len(f) == 2 && f[0] == "PU" {
			pre = append(pre, preOp{rune(h.Atoi(f[1])), "", true})
			scr.UnregisterRuneFallback(pre[len(pre)-1].r)
		} else {
			break
		}
	}
	if scr.Init() != nil {
		res.Obs = "init-failed"
		return res
	}
	defer scr.Fini()
	e := &encRun{scr: scr, tty: tty, ti: src, cd: cd, tw: tw, refs: map[int][2][]byte{}, fb: map[rune]string{}, res: &res, tags: map[string]bool{}}
	for k, v := range defaultRuneFallbacks {
		e.fb[k] = v
	}
	for _, p := range pre {
		if p.del {
			delete(e.fb, p.r)
		} else {
			e.fb[p.r] = p.s
		}
		e.tags["fallback-change-before-init"] = true
	}
	// the other screen of the case (op X)
	var other *encRun
	if !strings.EqualFold(scr.CharacterSet(), charset) {
		res.Findings = append(res.Findings, h.Finding{Class: "locale-charset", Msg: fmt.Sprintf("LC_ALL=xx_XX.%s but CharacterSet()=%q", charset, scr.CharacterSet())})
	}
	scr.Show()
	var obs []string
	for _, op := range ops[1:] {
		f := strings.Fields(op)
		switch {
		case f[0] == "X" && len(f) == 1:
			if other == nil {
				tic2 := *src
				tty2 := NewFakeTty(tw, 2)
				scr2, err := tcell.NewTerminfoScreenFromTtyTerminfo(tty2, &tic2)
				if err != nil || scr2.Init() != nil {
					obs = append(obs, "init-failed")
					continue
				}
				defer scr2.Fini()
				scr2.Show()
				other = &encRun{scr: scr2, tty: tty2, refs: map[int][2][]byte{}, fb: map[rune]string{}}
				for k, v := range defaultRuneFallbacks {
					other.fb[k] = v
				}
				e.tags["second-screen"] = true
			}
			e.scr, other.scr = other.scr, e.scr
			e.tty, other.tty = other.tty, e.tty
			e.refs, other.refs = other.refs, e.refs
			e.fb, other.fb = other.fb, e.fb
			scr = e.scr
		case f[0] == "D" && len(f) == 5:
			x, m, comb := h.Atoi(f[1]), rune(h.Atoi(f[2])), toRunes(h.IntList(f[3]))
			got, ok := e.payload(x, m, comb)
			if !ok {
				obs = append(obs, "d:unparsed:"+h.Hex(got))
				e.finding("unparsed", "Show block for U+%04X not of the form prefix+payload+suffix: %x", m, got)
				continue
			}
			obs = append(obs, "d:"+h.Hex(got))
			e.judge(x, m, comb, got)
			res.Nontrivial = true
			if len(comb) > 0 {
				e.tags["combining"] = true
			}
		case f[0] == "B" && len(f) == 6:
			x, r0, step, n := h.Atoi(f[1]), h.Atoi(f[2]), h.Atoi(f[3]), h.Atoi(f[4])
			var outs []string
			for i := 0; i < n; i++ {
				r := rune(r0 + i*step)
				if runewidth.RuneWidth(r) == 0 || r < ' ' {
					outs = append(outs, "z")
					continue
				}
				got, ok := e.payload(x, r, nil)
				if !ok {
					outs = append(outs, "unparsed:"+h.Hex(got))
					e.finding("unparsed", "Show block for U+%04X not of the form prefix+payload+suffix: %x", r, got)
					continue
				}
				c0, c1 := scr.CanDisplay(r, false), scr.CanDisplay(r, true)
				outs = append(outs, h.Hex(got)+"/"+cb01(c0)+cb01(c1))
				e.judge(x, r, nil, got)
				e.judgeCanDisplay(r, false, c0)
				e.judgeCanDisplay(r, true, c1)
				if runewidth.RuneWidth(r) > 1 {
					e.tags["wide"] = true
				}
			}
			obs = append(obs, "b:"+strings.Join(outs, ","))
			res.Nontrivial = true
		case f[0] == "C" && len(f) == 4:
			r, flag := rune(h.Atoi(f[1])), f[2] == "1"
			got := scr.CanDisplay(r, flag)
			obs = append(obs, "c:"+cb01(got))
			e.judgeCanDisplay(r, flag, got)
		case f[0] == "R" && len(f) == 3:
			r, s := rune(h.Atoi(f[1])), string(h.Unhex(f[2]))
			scr.RegisterRuneFallback(r, s)
			e.fb[r] = s
			e.tags["register"] = true
		case (f[0] == "PR" && len(f) == 3) || (f[0] == "PU" && len(f) == 2):
			// applied before Init (above)
		case f[0] == "U" && len(f) == 2:
			r := rune(h.Atoi(f[1]))
			scr.UnregisterRuneFallback(r)
			delete(e.fb, r)
			e.tags["unregister"] = true
		default:
			obs = append(obs, "bad-op")
		}
	}
	res.Obs = strings.Join(obs, " ")
	for t := range e.tags {
		res.Tags = append(res.Tags, t)
	}
	res.Tags = append(res.Tags, "cs:"+charset)
	return res
}

// ---- generation ----

func acsVariant() (res string) {
	defer func() {
		if recover() != nil {
			res = "ppp"
		}
	}()
	m := tcell.VerifAcsMap(&terminfo.Terminfo{Name: "probe", AltChars: "~~", EnterAcs: "<", ExitAcs: ">"})
	v := "p"
	if _, ok := m[tcell.RuneBullet]; ok {
		v = "r"
	}
	m = tcell.VerifAcsMap(&terminfo.Terminfo{Name: "probe", AltChars: "q\xc4xx", EnterAcs: "<", ExitAcs: ">"})
	if m[tcell.RuneHLine] == "<\xc4>" {
		v += "r"
	} else {
		v += "p"
	}
	if acsStrips() {
		return v + "s"
	}
	return v + "p"
}

// acsStrips asks the question of the translator probe Gen.acsStripsPadding (harness/cmd/extract/acs.go acsStripProbe):
// no string of vt220's ACS map contains `$<`, and on a synthetic entry exactly the padding specifications are gone.
func acsStrips() bool {
	vt := terminfo.VerifEntries()["vt220"]
	if vt == nil || !strings.Contains(vt.EnterAcs+vt.ExitAcs, "$<") {
		return false
	}
	m := tcell.VerifAcsMap(vt)
	if len(m) == 0 {
		return false
	}
	for _, s := range m {
		if strings.Contains(s, "$<") {
			return false
		}
	}
	m = tcell.VerifAcsMap(&terminfo.Terminfo{Name: "probe", AltChars: "qqxx", EnterAcs: "<$<2>", ExitAcs: ">$<4/>"})
	return m[tcell.RuneHLine] == "<q>"
}

func specialRunes() []int {
	set := map[int]bool{}
	for _, r := range termAcsGlyph {
		set[int(r)] = true
	}
	for r := range tcell.RuneFallbacks {
		set[int(r)] = true
	}
	for _, r := range []int{0x2409, 0x240a, 0x240b, 0x240c, 0x20ac, 0xe9, 0x4f60, 0x4e16, 0xff21, 0x3042, 0xac00, 0x401, 0x5d0, 0x1f600, 0x10000, 0x2fffd, 0xfffd, 0xa0, 0x7f, 0x80, 0x9f, 0x7e, 0x21} {
		set[r] = true
	}
	var out []int
	for r := range set {
		out = append(out, r)
	}
	sort.Ints(out)
	return out
}

func encList(cd *codec, rs []rune) string {
	if len(rs) == 0 {
		return "-"
	}
	ss := make([]string, len(rs))
	for i, r := range rs {
		ss[i] = cd.encStr(r)
	}
	return strings.Join(ss, ",")
}

// visible main rune (what GetContent reports): the encoder is asked about this one
func visibleMain(r rune) rune {
	if runewidth.RuneWidth(r) == 0 || r < ' ' {
		return ' '
	}
	return r
}

func genEnc(g *h.Gen) {
	r := g.R
	v := acsVariant()
	charsets := c17Charsets
	special := specialRunes()
	// 0. directed cases: the user-visible forms of the defects known on the pinned tree (they stay correct cases on a repaired one)
	for _, d := range []struct {
		entry, cs string
		main      int
		comb      []int
	}{
		{"xterm", "US-ASCII", int(tcell.RuneBullet), nil},   // last acsc pair `~~`
		{"ansi", "ISO8859-1", int(tcell.RuneHLine), nil},    // terminal character 0xC4
		{"vt220", "ISO8859-1", int(tcell.RuneHLine), nil},   // smacs/rmacs with padding
		{"vt420", "US-ASCII", int(tcell.RuneULCorner), nil}, // the other entry with padding
		{"xterm", "ISO8859-6", 0x4e16, []int{0x64b}},        // wide '?' followed by an encodable combining mark
	} {
		if cd := newCodec(d.cs); cd != nil {
			rs := append([]rune{rune(d.main)}, toRunes(d.comb)...)
			g.Emit("enc cfg %s %s %s 6; D 1 %d %s %s; C %d 0 %s; C %d 1 %s", v, d.entry, d.cs, d.main, h.ShowIntList(d.comb), encList(cd, rs),
				d.main, cd.encStr(rune(d.main)), d.main, cd.encStr(rune(d.main)))
		}
	}
	// 0a'. registration changes made on the constructed screen BEFORE Init (ops PR / PU), observed at the first draws
	{
		var defs []int
		for k := range defaultRuneFallbacks {
			defs = append(defs, int(k))
		}
		sort.Ints(defs)
		for i := g.N(40, 1200); i > 0 && len(defs) > 0; i-- {
			cs := h.Pick(r, []string{"US-ASCII", "US-ASCII", "ISO8859-1", "KOI8-R", "ISO8859-15", "GBK"})
			cd := newCodec(cs)
			if cd == nil {
				continue
			}
			tw := r.Range(3, 6)
			ops := []string{fmt.Sprintf("cfg %s %s %s %d", v, h.Pick(r, []string{"sun", "sun", "linux", "xterm", "vt220", "ansi", "beterm"}), cs, tw)}
			var rs []int
			for k := r.Range(1, 3); k > 0; k-- {
				m := h.Pick(r, defs)
				if r.Chance(25) {
					m = h.Pick(r, []int{0x4e16, 0x20ac, 0x3b1, 0x2603, 0xe9})
				}
				rs = append(rs, m)
				if r.Chance(65) {
					ops = append(ops, fmt.Sprintf("PU %d", m))
				} else {
					fb := h.Pick(r, []string{"*", "+", "o", "!"})
					if runewidth.RuneWidth(rune(m)) > 1 {
						fb = "ab"
					}
					ops = append(ops, fmt.Sprintf("PR %d %s", m, h.Hex([]byte(fb))))
				}
			}
			rs = append(rs, h.Pick(r, defs))
			for _, m := range rs {
				ops = append(ops, fmt.Sprintf("D %d %d - %s", r.Range(0, tw-2), m, encList(cd, []rune{visibleMain(rune(m))})),
					fmt.Sprintf("C %d 1 %s", m, cd.encStr(rune(m))), fmt.Sprintf("C %d 0 %s", m, cd.encStr(rune(m))))
			}
			g.Emit("enc %s", strings.Join(ops, "; "))
		}
	}
	// 0b. two screens in one process: registrations on one screen, draws and CanDisplay on the other (created before or after)
	{
		var defs []int
		for k := range defaultRuneFallbacks {
			defs = append(defs, int(k))
		}
		sort.Ints(defs)
		twoCS := []string{"US-ASCII", "US-ASCII", "ISO8859-1", "KOI8-R", "ISO8859-2", "ISO8859-15", "GBK", "SHIFT_JIS"}
		twoEnt := []string{"sun", "sun", "sun", "linux", "beterm", "xterm", "vt220", "ansi"}
		for i := g.N(60, 2000); i > 0 && len(defs) > 0; i-- {
			cs := h.Pick(r, twoCS)
			cd := newCodec(cs)
			if cd == nil {
				continue
			}
			tw := r.Range(3, 6)
			ops := []string{fmt.Sprintf("cfg %s %s %s %d", v, h.Pick(r, twoEnt), cs, tw)}
			rs := []int{h.Pick(r, defs), h.Pick(r, defs)}
			if r.Chance(40) {
				rs = append(rs, h.Pick(r, []int{0x4e16, 0x20ac, 0x3b1, 0x2603, 0xe9}))
			}
			draw := func(m int) string {
				return fmt.Sprintf("D %d %d - %s", r.Range(0, tw-2), m, encList(cd, []rune{visibleMain(rune(m))}))
			}
			can := func(m int) string { return fmt.Sprintf("C %d %d %s", m, r.Intn(2), cd.encStr(rune(m))) }
			change := func(m int) string {
				if r.Chance(60) {
					return fmt.Sprintf("U %d", m)
				}
				fb := h.Pick(r, []string{"*", "+", "o", "!"})
				if runewidth.RuneWidth(rune(m)) > 1 {
					fb = "ab"
				}
				return fmt.Sprintf("R %d %s", m, h.Hex([]byte(fb)))
			}
			if r.Bool() { // the other screen exists before the first registration change
				ops = append(ops, "X")
				if r.Bool() {
					ops = append(ops, draw(h.Pick(r, rs)))
				}
				ops = append(ops, "X")
			}
			for k := r.Range(1, 3); k > 0; k-- {
				ops = append(ops, change(h.Pick(r, rs)))
				if r.Chance(30) {
					ops = append(ops, draw(h.Pick(r, rs)))
				}
			}
			ops = append(ops, "X")
			for _, m := range rs {
				ops = append(ops, draw(m), can(m), can(m))
			}
			if r.Chance(50) { // … and the first screen keeps ITS registrations
				if r.Bool() {
					ops = append(ops, change(h.Pick(r, rs)))
				}
				ops = append(ops, "X")
				for _, m := range rs {
					ops = append(ops, draw(m), can(m))
				}
			}
			g.Emit("enc %s", strings.Join(ops, "; "))
		}
	}
	// 1. sweeps: xterm (has an ACS map) over the BMP; an entry without ACS map and vt220 (padding in smacs) over the special runes
	perLine := 4 // B ops per line (one screen per line)
	emitSweep := func(cs string, cd *codec, entry string, runes []int, tw int) {
		for i := 0; i < len(runes); {
			var ops []string
			ops = append(ops, fmt.Sprintf("cfg %s %s %s %d", v, entry, cs, tw))
			for k := 0; k < perLine && i < len(runes); k++ {
				// maximal arithmetic run of at most 64 runes
				j, step := i+1, 1
				if j < len(runes) {
					step = runes[j] - runes[i]
				}
				for j < len(runes) && j-i < 64 && runes[j]-runes[j-1] == step {
					j++
				}
				rs := make([]rune, j-i)
				for q := range rs {
					rs[q] = rune(runes[i+q])
				}
				x := r.Range(0, tw-2)
				ops = append(ops, fmt.Sprintf("B %d %d %d %d %s", x, runes[i], step, j-i, encList(cd, rs)))
				i = j
			}
			g.Emit("enc %s", strings.Join(ops, "; "))
		}
	}
	for ci, cs := range charsets {
		cd := newCodec(cs)
		if cd == nil {
			continue
		}
		var sweep []int
		for c := 0x20; c < 0x10000; c++ {
			if c >= 0xd800 && c < 0xe000 {
				continue
			}
			// quick: every rune below 0x3000 and every 7th above (offset rotates with the charset); thorough: the whole BMP
			if g.Thorough() || c < 0x3000 || c%7 == ci%7 {
				sweep = append(sweep, c)
			}
		}
		emitSweep(cs, cd, "xterm", sweep, 6)
		emitSweep(cs, cd, "xterm", special, 4)
		emitSweep(cs, cd, "sun", special, 4)
		emitSweep(cs, cd, "vt220", special, 4)
		emitSweep(cs, cd, "linux", special, 4)
	}
	// 1b. the alias spellings encoding/all.go registers (8859-9, ISO-8859-9, SJIS, EUCJP, EUCKR, 646, ISO646, ASCII, UTF8): the
	// name selects the same code page as the canonical spelling.  Single-byte code pages: every rune some single-byte
	// charset has (the runes in which two such code pages can differ) plus the special runes; multi-byte ones: Latin /
	// Greek / Cyrillic, the special runes and a stride through the CJK part of the BMP (thorough: a denser stride, the whole
	// single-byte repertoire).
	aliases := refAliasesOf(c17Charsets)
	perLine = 32 // scattered runes make short arithmetic runs: more of them per screen
	for ai, al := range aliases {
		cd := newCodec(al)
		if cd == nil {
			continue
		}
		set := map[int]bool{}
		for _, c := range special {
			set[c] = true
		}
		stride, part := 47, 6
		if g.Thorough() {
			stride, part = 7, 1
		}
		switch {
		case refIsMulti(al):
			for c := 0xa0; c < 0x500; c++ {
				set[c] = true
			}
			for c := 0x3000 + ai%stride; c < 0x10000; c += stride {
				set[c] = true
			}
		case !refIsUTF8(al) && !refIsASCII(al):
			// the charset's own repertoire (a name bound to another code page cannot encode all of it the same way) …
			for _, c := range refRepertoire(al) {
				set[c] = true
			}
			// … and a rotating slice of what the other single-byte code pages have
			for k, c := range refSingleRepertoire() {
				if k%part == ai%part {
					set[c] = true
				}
			}
		}
		var runes []int
		for c := range set {
			if c >= 0x20 && !(c >= 0xd800 && c < 0xe000) {
				runes = append(runes, c)
			}
		}
		sort.Ints(runes)
		emitSweep(al, cd, "xterm", runes, 6)
	}
	// 2. single cells: combining, wide, last column, fallback registration histories, random entries
	entries := []string{"xterm", "xterm-256color", "sun", "linux", "vt220", "ansi", "wy60", "vt52", "beterm", "screen", "st", "aixterm", "kterm"}
	n := g.N(600, 20000)
	combPool := []int{0x301, 0x308, 0x20dd, 0x200d, 'x', 0xfe0f, 0x2500, 0xe9, 0x4e16, 0x64b, 0x650, 0x301}
	fbStrings := []string{"*", "+", "o", "ab", "!"}
	histCharsets := append([]string{}, charsets...)
	for i := 0; i < 6 && len(aliases) > 0; i++ { // alias spellings: a fifth of the histories
		histCharsets = append(histCharsets, h.Pick(r, aliases))
	}
	for i := 0; i < n; i++ {
		cs := h.Pick(r, histCharsets)
		cd := newCodec(cs)
		if cd == nil {
			continue
		}
		entry := h.Pick(r, entries)
		tw := r.Range(2, 6)
		ops := []string{fmt.Sprintf("cfg %s %s %s %d", v, entry, cs, tw)}
		nops := r.Range(2, 10)
		pick := func() int {
			switch r.Intn(5) {
			case 0:
				return h.Pick(r, special)
			case 1:
				return r.Range(0x20, 0x2fff)
			case 2:
				return h.Pick(r, []int{0x4e16, 0x754c, 0xff21, 0x3042, 0xac00, 0x1f600, 0x4f60})
			case 3:
				return r.Range(0x3000, 0xffff)
			}
			return h.Pick(r, special)
		}
		var touched []int
		for j := 0; j < nops; j++ {
			if r.Chance(6) && entry != "wy60" && entry != "vt52" && entry != "vt220" {
				// the other screen of the case: its own registrations (not on the entries whose initialisation strings carry
				// padding delays: a second Init would double the 0.2 s such a line costs)
				ops = append(ops, "X")
			}
			switch k := r.Intn(100); {
			case k < 50:
				m := pick()
				if m >= 0xd800 && m < 0xe000 {
					m = 0x2500
				}
				var comb []int
				if r.Chance(35) {
					for q := r.Range(1, 3); q > 0; q-- {
						comb = append(comb, h.Pick(r, combPool))
					}
				}
				x := r.Range(0, tw-1)
				if r.Chance(30) {
					x = tw - 1
				}
				rs := []rune{visibleMain(rune(m))}
				rs = append(rs, toRunes(comb)...)
				ops = append(ops, fmt.Sprintf("D %d %d %s %s", x, m, h.ShowIntList(comb), encList(cd, rs)))
				touched = append(touched, m)
			case k < 65:
				m := pick()
				if len(touched) > 0 && r.Bool() {
					m = h.Pick(r, touched)
				}
				s := h.Pick(r, fbStrings)
				if runewidth.RuneWidth(rune(m)) > 1 {
					s = "ab"
				} else if len(s) > 1 {
					s = "*"
				}
				ops = append(ops, fmt.Sprintf("R %d %s", m, h.Hex([]byte(s))))
				touched = append(touched, m)
			case k < 78:
				m := h.Pick(r, special)
				if len(touched) > 0 && r.Bool() {
					m = h.Pick(r, touched)
				}
				ops = append(ops, fmt.Sprintf("U %d", m))
				touched = append(touched, m)
			default:
				m := pick()
				if len(touched) > 0 && r.Chance(60) {
					m = h.Pick(r, touched)
				}
				ops = append(ops, fmt.Sprintf("C %d %d %s", m, r.Intn(2), cd.encStr(rune(m))))
			}
		}
		// every history ends by redrawing what it touched, so that registration changes are observed "at the next draw"
		for _, m := range touched {
			if len(ops) > 14 {
				break
			}
			if m >= 0xd800 && m < 0xe000 {
				continue
			}
			ops = append(ops, fmt.Sprintf("D 0 %d - %s", m, encList(cd, []rune{visibleMain(rune(m))})))
		}
		g.Emit("enc %s", strings.Join(ops, "; "))
	}
}

// ---- acs engine ----

func showAcsMap(m map[rune]string) string {
	var ks []int
	for k := range m {
		ks = append(ks, int(k))
	}
	sort.Ints(ks)
	if len(ks) == 0 {
		return "-"
	}
	ss := make([]string, len(ks))
	for i, k := range ks {
		ss[i] = fmt.Sprintf("%d=%s", k, h.Hex([]byte(m[rune(k)])))
	}
	return strings.Join(ss, ",")
}

func execAcs(line string) h.Result {
	var res h.Result
	f := strings.Fields(line)
	if len(f) != 3 {
		res.Obs = "bad-case"
		return res
	}
	ti := terminfo.VerifEntries()[f[2]]
	if strings.HasPrefix(f[2], "syn:") {
		p := strings.Split(f[2], ":")
		if len(p) != 4 {
			res.Obs = "bad-case"
			return res
		}
		ti = &terminfo.Terminfo{Name: "syn", AltChars: string(h.Unhex(p[1])), EnterAcs: string(h.Unhex(p[2])), ExitAcs: string(h.Unhex(p[3]))}
		res.Tags = append(res.Tags, "synthetic")
	}
	if ti == nil {
		res.Obs = "no-entry"
		return res
	}
	m := tcell.VerifAcsMap(ti)
	res.Obs = showAcsMap(m)
	if padded := stripPad(ti.EnterAcs) != ti.EnterAcs || stripPad(ti.ExitAcs) != ti.ExitAcs; padded && len(ti.AltChars) >= 2 {
		res.Tags = append(res.Tags, "padded-smacs-rmacs")
	}
	res.Nontrivial = len(ti.AltChars) > 0
	ps := acsPairs(ti)
	// terminfo(5): acsc is a list of pairs (vt100 name, the terminal's character); the glyph named n is obtained by
	// sending d between smacs and rmacs.  Later pairs for the same name are accepted as alternatives.
	seen := map[rune]bool{}
	for i := range ps {
		g, ok := termAcsGlyph[ps[i][0]]
		if !ok || seen[g] {
			continue
		}
		seen[g] = true
		want, lastOnly := acsExpected(ti, g)
		got, have := m[g]
		match := false
		// The map is internal state: its string for the glyph is smacs+d+rmacs either as the description has them (then the
		// draw path has to deal with the padding: judged on the wire by engine enc, class acs-padding-literal) or with exactly
		// the padding specifications removed (terminfo(5): padding is a delay, never bytes).  Nothing else: a half-stripped
		// string, a lost character, text that is not a padding specification removed.
		for _, w := range want {
			if have && (got == w || got == acsStripped(ti, w)) {
				match = true
			}
		}
		if !match && len(res.Findings) < 3 {
			cls := "acs-map"
			if lastOnly && !have {
				cls = "acs-last-pair-dropped"
			} else if have && ps[i][1] >= 0x80 && got == ti.EnterAcs+string(rune(ps[i][1]))+ti.ExitAcs {
				cls = "acs-high-byte-utf8"
			}
			res.Findings = append(res.Findings, h.Finding{Class: cls, Msg: fmt.Sprintf("entry %s: acsc pair %q names U+%04X but the ACS map has (%v) %q, expected one of %q", ti.Name, string(ps[i][:]), g, have, got, want)})
		}
	}
	if len(ti.AltChars)%2 == 1 {
		res.Tags = append(res.Tags, "odd-acsc")
	}
	if len(ti.AltChars) == 0 {
		res.Tags = append(res.Tags, "no-acsc")
	} else {
		res.Tags = append(res.Tags, "acsc")
	}
	return res
}

func genAcsCases(g *h.Gen) {
	v := acsVariant()
	var names []string
	for n := range terminfo.VerifEntries() {
		names = append(names, n)
	}
	sort.Strings(names)
	for _, n := range names {
		g.Emit("acs %s %s", v, n)
	}
	// synthetic descriptions: padding forms the database does not have (its only padded smacs/rmacs, vt220 and vt420, carry
	// one `$<n>` at the very end)
	syn := func(acsc, smacs, rmacs string) {
		g.Emit("acs %s syn:%s:%s:%s", v, h.Hex([]byte(acsc)), h.Hex([]byte(smacs)), h.Hex([]byte(rmacs)))
	}
	for _, c := range [][3]string{
		{"qqxx", "\x1b(0$<2>", "\x1b(B$<4>"},        // the vt220 form
		{"qqxx", "\x1b$<5>(0", "$<1.5*/>\x1b(B"},    // in the middle / at the start, all flag forms
		{"qqxx", "$<2>\x0e$<3/>", "\x0f$<10*>$<2>"}, // several specifications
		{"qqxx", "<$<x>$", ">$<>"},                  // `$<…>` that is no padding specification: ordinary text
		{"qqxx", "<$<2", ">$"},                      // unterminated
		{"qqxx", "<$<$<2>", ">$<2>$<"},              // a specification after a stray `$<`
		{"q$x<", "<$<2>", ">"},                      // `$` `<` as the terminal's own characters
		{"qq", "$<2>", "$<4>"},                      // smacs/rmacs that are nothing but padding
		{"qqxx~~", "$1<2>", "$ <4>"},                // not specifications
		{"q\xc4", "\x1b[11m$<2>", "\x1b[10m$<.5>"},  // high byte; `.5` has no leading digit: not a specification
		{"q2x3", "<$<", ">"},                        // each capability string is taken by itself: `<$<` + `2` + `>` stays
		{"q>x<", "a$<1", "$<2>b"},                   // … and the terminal's character cannot close a specification
	} {
		syn(c[0], c[1], c[2])
	}
	r := g.R
	frag := []string{"$<2>", "$<", ">", "$", "<", "$<1.5>", "$<3*>", "$<4/>", "$<*>", "$<1.2.3>", "$<12", "\x1b(0", "\x1b(B", "\x0e", "\x0f", "a", "$<a>", "$<7*/>", "$<0>", "2>"}
	mk := func() string {
		var sb strings.Builder
		for k := r.Range(0, 5); k > 0; k-- {
			sb.WriteString(h.Pick(r, frag))
		}
		return sb.String()
	}
	for i := g.N(150, 3000); i > 0; i-- {
		syn(h.Pick(r, []string{"qqxx", "qq", "~~", "q\xc4xx", "q$", "lqmx", "q", "q2", "q>x<"}), mk(), mk())
	}
}

func init() {
	h.Register(&h.Engine{Name: "enc",
		Rule: "one terminfo screen per line (entry × charset from LC_ALL) drawing single cells and observing the payload bytes of the Show block, CanDisplay, fallback registration histories; sweeps cover the BMP per charset; distinct = distinct line; non-trivial = at least one payload observed",
		Gen:  genEnc, Exec: execEnc})
	h.Register(&h.Engine{Name: "acs",
		Rule: "every registered terminfo name: the ACS map built by buildAcsMap (exhaustive over the database); non-trivial = entry has an acsc string",
		Gen:  genAcsCases, Exec: execAcs})
}
