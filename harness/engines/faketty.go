package engines

import (
	"errors"
	"fmt"
	"io"
	"sync"

	"github.com/gdamore/tcell/v2"
)

// FakeTty is the in-memory tcell.Tty every screen-level engine uses: it records the ordered log of calls
// (Start Stop Drain NotifyResize(nil|fn) WindowSize Read Write Close), every Write block, and serves Read from
// chunks the test injects.  Read blocks until a chunk, Drain, Stop or Close arrives (the documented contract:
// "Drain ensures that the reader will wake up").
type FakeTty struct {
	mu       sync.Mutex
	cond     *sync.Cond
	W, H     int
	Log      []string // call log (Write entries carry the length only; blocks are in Writes)
	Writes   [][]byte // one entry per Write call, since the last TakeWrites
	chunks   [][]byte
	readErr  error // returned by the next Read once set (fault injection)
	draining bool
	stopped  bool
	closed   bool
	cb       func()
	LogReads bool
	WsErr    error // if set, WindowSize fails
	FailStart  bool   // the next Start fails (one shot): the terminal is temporarily unavailable
	OnUnnotify func() // if set: called once, from the next NotifyResize(nil), outside the tty's own lock
	LogWS    bool  // log WindowSize calls, and Read calls entered while the tty is stopped (engine modes, C04)
}

func NewFakeTty(w, h int) *FakeTty {
	t := &FakeTty{W: w, H: h, stopped: true}
	t.cond = sync.NewCond(&t.mu)
	return t
}

func (t *FakeTty) log(s string) { t.Log = append(t.Log, s) }

func (t *FakeTty) Start() error {
	t.mu.Lock()
	defer t.mu.Unlock()
	if t.FailStart {
		t.FailStart = false
		t.log("Start(failed)")
		return errors.New("tty: temporarily unavailable")
	}
	t.log("Start")
	t.stopped, t.draining = false, false
	return nil
}
func (t *FakeTty) Stop() error {
	t.mu.Lock()
	defer t.mu.Unlock()
	t.log("Stop")
	t.stopped = true
	t.cond.Broadcast()
	return nil
}
func (t *FakeTty) Drain() error {
	t.mu.Lock()
	defer t.mu.Unlock()
	t.log("Drain")
	t.draining = true
	t.cond.Broadcast()
	return nil
}
func (t *FakeTty) NotifyResize(cb func()) {
	t.mu.Lock()
	if cb == nil {
		t.log("NotifyResize(nil)")
	} else {
		t.log("NotifyResize(fn)")
	}
	t.cb = cb
	hook := t.OnUnnotify
	if cb != nil {
		hook = nil
	} else {
		t.OnUnnotify = nil // one shot
	}
	t.mu.Unlock()
	if hook != nil {
		hook() // an application call that lands while a Suspend / Fini is in progress (the library holds no screen lock here)
	}
}
func (t *FakeTty) WindowSize() (tcell.WindowSize, error) {
	t.mu.Lock()
	defer t.mu.Unlock()
	if t.LogWS {
		t.log("WindowSize")
	}
	if t.WsErr != nil {
		return tcell.WindowSize{}, t.WsErr
	}
	return tcell.WindowSize{Width: t.W, Height: t.H}, nil
}
func (t *FakeTty) Read(b []byte) (int, error) {
	t.mu.Lock()
	defer t.mu.Unlock()
	if t.LogWS && t.stopped {
		t.log("Read-after-Stop")
	}
	for {
		if t.closed {
			return 0, io.EOF
		}
		if t.readErr != nil {
			e := t.readErr
			t.readErr = nil
			if t.LogReads {
				t.log("Read=err")
			}
			return 0, e
		}
		if len(t.chunks) > 0 {
			c := t.chunks[0]
			n := copy(b, c)
			if n < len(c) {
				t.chunks[0] = c[n:]
			} else {
				t.chunks = t.chunks[1:]
			}
			if t.LogReads {
				t.log(fmt.Sprintf("Read=%d", n))
			}
			return n, nil
		}
		if t.draining || t.stopped {
			// like a tty with VMIN=0/VTIME=0 after Drain: return no data without blocking
			return 0, nil
		}
		t.cond.Wait()
	}
}
func (t *FakeTty) Write(b []byte) (int, error) {
	t.mu.Lock()
	defer t.mu.Unlock()
	if t.stopped {
		t.log(fmt.Sprintf("Write-after-Stop(%d)", len(b)))
	} else {
		t.log(fmt.Sprintf("Write(%d)", len(b)))
	}
	t.Writes = append(t.Writes, append([]byte(nil), b...))
	return len(b), nil
}
func (t *FakeTty) Close() error {
	t.mu.Lock()
	defer t.mu.Unlock()
	t.log("Close")
	t.closed = true
	t.cond.Broadcast()
	return nil
}

// ---- test-side controls ----

// Inject queues one chunk for Read (one Read call returns at most one chunk).
func (t *FakeTty) Inject(b []byte) {
	t.mu.Lock()
	t.chunks = append(t.chunks, append([]byte(nil), b...))
	t.cond.Broadcast()
	t.mu.Unlock()
}

// FailNextRead makes the next Read return err.
func (t *FakeTty) FailNextRead(err error) {
	t.mu.Lock()
	if err == nil {
		err = errors.New("injected read error")
	}
	t.readErr = err
	t.cond.Broadcast()
	t.mu.Unlock()
}

// Resize changes the reported window size and fires the registered callback (like SIGWINCH), if any.
func (t *FakeTty) Resize(w, h int) {
	t.mu.Lock()
	t.W, t.H = w, h
	cb := t.cb
	t.mu.Unlock()
	if cb != nil {
		cb()
	}
}

// SetSizeQuiet changes the reported size without notifying (the next Show/Sync notices it).
func (t *FakeTty) SetSizeQuiet(w, h int) {
	t.mu.Lock()
	t.W, t.H = w, h
	t.mu.Unlock()
}

// TakeWrites returns and clears the recorded Write blocks.
func (t *FakeTty) TakeWrites() [][]byte {
	t.mu.Lock()
	defer t.mu.Unlock()
	w := t.Writes
	t.Writes = nil
	return w
}

// TakeLog returns and clears the call log.
func (t *FakeTty) TakeLog() []string {
	t.mu.Lock()
	defer t.mu.Unlock()
	l := t.Log
	t.Log = nil
	return l
}
