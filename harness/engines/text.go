package engines

import (
	"fmt"
	"sort"
	"strconv"
	"strings"
	"unicode/utf8"

	"github.com/gdamore/tcell/v2"
	"github.com/gdamore/tcell/v2/terminfo"
	"golang.org/x/text/transform"
	"verif/harness/h"
)

// Engine text — C11 "typed and pasted text is delivered rune for rune, in order".
//
//	text law <entry>[+flags] <charset> <hexprefix|->
//	    codec-law validation: every character of <charset> whose encoding starts with <hexprefix> (`-` = every lead byte
//	    0x80..0xFF).  The characters are enumerated with the charset's decoder itself (a byte string is a character when
//	    the decoder, given exactly these bytes, produces exactly one rune ≠ U+FFFD and consumes all of them, and longer
//	    candidates are tried where it reports ErrShortSrc with atEOF=false).  Each law of `CodecLaws` (lean/Tcell/Props/C11.lean)
//	    is then checked on the real parser exactly the way parseRune uses the decoder: the bytes are fed one per read
//	    through VerifParser.Feed — after every non-empty proper prefix the parser must have delivered nothing and kept the
//	    prefix buffered (law `short`), after the last byte it must deliver exactly KeyRune(r) and keep nothing (law `full`);
//	    also the whole encoding in one read.  `high` (first byte ≥ 0x80), `bounded` (≤ 4 bytes), `printable` (r ≥ 0x20,
//	    ≠ DEL, ≠ U+FFFD) are checked on the enumeration.  Oracle only (observation `SKIP …`); at most one finding per
//	    failing law per line, with the first failing character and the count.
//	text run <entry>[+flags] <charset-token> <items> <chunkhex>:0 …
//	    items = comma list of r<rune> | PS | PE | FI | FO (what the terminal sent, in order); the chunks are a partition of
//	    the items' bytes.  Executed through VerifParser.Feed and by the Lean model (observation as for `parse`).
//	    charset-token: utf8 | tbl:<name>:<runes 0x80..0xff> | mb:<name>:<hexenc>=<rune>,… (the multi-byte characters of the
//	    case; the model runs `decMulti atEOF T` with atEOF = the side of tscreen.go:1721 the tree under test is on,
//	    flag +eoffix = repaired).
//	    Oracle (from the property text): the delivered events are exactly one KeyRune per character with that rune and
//	    no modifiers, in order; exactly one paste-start and one paste-end where the markers were sent; one focus event
//	    per report; nothing remains buffered after the last read.
//
// Domain of the oracle: printable characters (rune ≥ U+00A0 or printable ASCII) that the charset's own decoder maps from
// the bytes; C0/C1 controls, DEL, U+FFFD and unmapped bytes are never generated.  Paste markers are only sent to entries
// for which tcell enables bracketed paste, focus reports only where it enables focus reporting.

func init() {
	h.Register(&h.Engine{Name: "text", Rule: "law lines: characters checked against the real parser; run lines: distinct (entry, charset, text, partition) delivering ≥1 event", Gen: genText, Exec: execText})
}

// stateless charsets of encoding/all.go (all but ISO2022JP and the HZ coder registered as GB2312) + UTF-8
var textSingle = []string{"ISO8859-1", "ISO8859-2", "ISO8859-3", "ISO8859-4", "ISO8859-5", "ISO8859-6", "ISO8859-7", "ISO8859-8", "ISO8859-9",
	"ISO8859-10", "ISO8859-13", "ISO8859-14", "ISO8859-15", "ISO8859-16", "KOI8-R", "KOI8-U"}
var textMulti = []string{"GBK", "GB18030", "Big5", "EUC-JP", "SHIFT_JIS", "EUC-KR"}

func isMulti(cs string) bool { return refIsMulti(cs) }

// every alias spelling encoding/all.go registers for the charsets above (8859-9, ISO-8859-9, SJIS, EUCJP, EUCKR, UTF8 …)
func textAliasSingle() []string { return refAliasesOf(textSingle) }
func textAliasMulti() []string  { return refAliasesOf(textMulti) }

// ---------------------------------------------------------------------------------------------------------------
// variant probe: which side of tscreen.go:1721 (Transform(…, atEOF)) the tree under test is on

var pTextVariant *string

func textVariant() string {
	if pTextVariant != nil {
		return *pTextVariant
	}
	s := variantSuffix()
	if ti := entries()["xterm-256color"]; ti != nil {
		_, all, left := runFeeds(ti, "GBK", 80, 24, []feed{{[]byte{0xC4, 0xE3}, false}})
		if len(all) == 1 && all[0] == "K.256.20320.0" && left == 0 {
			s += "+eoffix"
		}
	}
	pTextVariant = &s
	return s
}

func textEntryOf(tok string) (ti *terminfo.Terminfo, stale bool) {
	name, flags := tok, ""
	if i := strings.Index(tok, "+"); i >= 0 {
		name, flags = tok[:i], tok[i:]
	}
	return entries()[name], flags != textVariant()
}

// ---------------------------------------------------------------------------------------------------------------
// the charset's decoder, called directly

type rawRes struct {
	nOut, nIn int
	err       error
	out       []byte
}

func rawDecode(d transform.Transformer, b []byte, atEOF bool) rawRes {
	utf := make([]byte, 12)
	d.Reset()
	nOut, nIn, err := d.Transform(utf, b, atEOF)
	return rawRes{nOut, nIn, err, utf[:nOut]}
}

func (r rawRes) String() string {
	e := "nil"
	if r.err != nil {
		e = r.err.Error()
	}
	return fmt.Sprintf("(nOut=%d nIn=%d err=%s)", r.nOut, r.nIn, e)
}

type mbChar struct {
	enc []byte
	r   rune
}

// enumChars calls fn for every character of the charset whose encoding starts with prefix (len ≤ 4)
func enumChars(d transform.Transformer, prefix []byte, fn func(c mbChar)) {
	res := rawDecode(d, prefix, false)
	if res.err == transform.ErrShortSrc && res.nOut == 0 {
		if len(prefix) >= 4 {
			return
		}
		for b := 0; b < 256; b++ {
			enumChars(d, append(append([]byte{}, prefix...), byte(b)), fn)
		}
		return
	}
	if res.err == nil && res.nIn == len(prefix) && res.nOut > 0 {
		r, sz := utf8.DecodeRune(res.out)
		if sz == res.nOut && r != utf8.RuneError {
			fn(mbChar{append([]byte{}, prefix...), r})
		}
	}
}

func inOracleDomain(r rune) bool { return r >= 0xA0 && r != utf8.RuneError }

// ---------------------------------------------------------------------------------------------------------------
// law lines

func execLaw(f []string) h.Result {
	if len(f) != 5 {
		return h.Result{Obs: "bad-line"}
	}
	ti, _ := textEntryOf(f[2])
	if ti == nil {
		return h.Result{Obs: "no-entry"}
	}
	cs := f[3]
	// the reference decoder is the one the NAME denotes (refcharsets.go), not the one the code under test registered under it
	enc := refEncoding(cs)
	if enc == nil || tcell.GetEncoding(cs) == nil {
		return h.Result{Obs: "no-charset"}
	}
	d := enc.NewDecoder()
	var chars []mbChar
	pre := h.Unhex(f[4])
	if len(pre) == 0 {
		for b := 0x80; b < 0x100; b++ {
			enumChars(d, []byte{byte(b)}, func(c mbChar) { chars = append(chars, c) })
		}
	} else if pre[0] >= 0x80 {
		enumChars(d, pre, func(c mbChar) { chars = append(chars, c) })
	}
	p := tcell.NewVerifParser(ti, cs, 80, 24)
	first := map[string]string{}
	count := map[string]int{}
	// l > 0: append what the decoder itself answers for b[:l] (only computed for the first failure of a law)
	fail := func(law string, c mbChar, l int, format string, a ...interface{}) {
		count[law]++
		if _, ok := first[law]; !ok {
			first[law] = fmt.Sprintf("%s %s (U+%04X): ", cs, h.Hex(c.enc), c.r) + fmt.Sprintf(format, a...)
			if l > 0 {
				first[law] += fmt.Sprintf("; decoder.Transform(utf, b[:%d], atEOF=true) = %v, with atEOF=false = %v", l, rawDecode(d, c.enc[:l], true), rawDecode(d, c.enc[:l], false))
			}
		}
	}
	// after a failure: let the escape timer expire so that nothing stays buffered for the next character
	flush := func() {
		if _, left := p.Feed(nil, true); left != 0 {
			p = tcell.NewVerifParser(ti, cs, 80, 24)
		}
	}
	checked, c1 := 0, 0
	for _, c := range chars {
		if !inOracleDomain(c.r) {
			c1++ // control characters: not text in the sense of the property
			continue
		}
		checked++
		if c.enc[0] < 0x80 {
			fail("high", c, 0, "encoding starts with a 7-bit byte")
		}
		if len(c.enc) > 4 {
			fail("bounded", c, 0, "encoding longer than 4 bytes")
		}
		if c.r < 0x20 || c.r == 0x7f {
			fail("printable", c, 0, "decodes to a control character")
		}
		want := fmt.Sprintf("K.%d.%d.0", int(tcell.KeyRune), int(c.r))
		// one byte per read
		ok := true
		for i := 0; i < len(c.enc) && ok; i++ {
			evs, left := p.Feed(c.enc[i:i+1], false)
			se := showEvs(evs)
			if i < len(c.enc)-1 {
				if len(se) != 0 || left != i+1 {
					fail("short", c, i+1, "after the first %d of %d bytes the parser delivered %v and kept %d bytes buffered (must wait for the rest)", i+1, len(c.enc), se, left)
					ok = false
				}
			} else if len(se) != 1 || se[0] != want || left != 0 {
				fail("full", c, len(c.enc), "bytes fed one per read: the last byte gave %v (+%d buffered), want [%s]", se, left, want)
				ok = false
			}
		}
		if !ok {
			// the one-read check would only repeat the same failure
			flush()
			continue
		}
		evs, left := p.Feed(c.enc, false)
		se := showEvs(evs)
		if len(se) != 1 || se[0] != want || left != 0 {
			fail("full", c, len(c.enc), "whole encoding in one read gave %v (+%d buffered), want [%s]", se, left, want)
			flush()
		}
	}
	res := h.Result{Nontrivial: checked > 0, Tags: []string{"law", "law:" + cs}}
	total := 0
	for _, law := range []string{"high", "bounded", "printable", "short", "full"} {
		if n := count[law]; n > 0 {
			total += n
			res.Findings = append(res.Findings, h.Finding{Class: "codec-law-" + law, Msg: fmt.Sprintf("%s [%d of the %d characters of this line fail this law]", first[law], n, checked)})
			res.Tags = append(res.Tags, "law-fail:"+law)
		}
	}
	res.Obs = fmt.Sprintf("SKIP law chars=%d controls=%d failures=%d", checked, c1, total)
	return res
}

// ---------------------------------------------------------------------------------------------------------------
// run lines

type titem struct {
	kind string // r PS PE FI FO
	r    rune
}

func parseItems(s string) []titem {
	var out []titem
	for _, t := range strings.Split(s, ",") {
		if t == "" || t == "-" {
			continue
		}
		if t[0] == 'r' {
			out = append(out, titem{"r", rune(h.Atoi(t[1:]))})
		} else {
			out = append(out, titem{t, 0})
		}
	}
	return out
}

func showItems(its []titem) string {
	if len(its) == 0 {
		return "-"
	}
	ss := make([]string, len(its))
	for i, it := range its {
		if it.kind == "r" {
			ss[i] = "r" + strconv.Itoa(int(it.r))
		} else {
			ss[i] = it.kind
		}
	}
	return strings.Join(ss, ",")
}

var markerBytes = map[string]string{"PS": "\x1b[200~", "PE": "\x1b[201~", "FI": "\x1b[I", "FO": "\x1b[O"}
var markerEvent = map[string]string{"PS": "P.1", "PE": "P.0", "FI": "F.1", "FO": "F.0"}

func textCharsetName(tok string) string {
	if strings.HasPrefix(tok, "mb:") {
		p := strings.SplitN(tok, ":", 3)
		if len(p) == 3 {
			return p[1]
		}
	}
	return charsetName(tok)
}

func execRun(f []string) h.Result {
	if len(f) < 6 {
		return h.Result{Obs: "bad-line"}
	}
	ti, stale := textEntryOf(f[2])
	if ti == nil {
		return h.Result{Obs: "no-entry"}
	}
	cs := textCharsetName(f[3])
	items := parseItems(f[4])
	fs := parseFeeds(f[5:])
	obs, all, left := runFeeds(ti, cs, 80, 24, fs)
	res := h.Result{Obs: strings.Join(obs, " "), Nontrivial: len(all) > 0}
	if stale {
		res.Obs = "SKIP variant-mismatch " + res.Obs
	}
	tags := map[string]bool{"run": true, "charset:" + cs: true}
	if len(fs) > 1 {
		tags["chunked"] = true
	}
	// oracle
	var want []string
	for _, it := range items {
		if it.kind == "r" {
			want = append(want, fmt.Sprintf("K.%d.%d.0", int(tcell.KeyRune), int(it.r)))
			switch n := utf8.RuneLen(it.r); {
			case it.r < 0x80:
				tags["ascii"] = true
			default:
				tags[fmt.Sprintf("utf8len%d", n)] = true
			}
		} else {
			want = append(want, markerEvent[it.kind])
			tags[it.kind] = true
		}
	}
	// first difference
	k := 0
	for k < len(want) && k < len(all) && want[k] == all[k] {
		k++
	}
	if k < len(want) || k < len(all) || left != 0 {
		class := "text-rune-lost"
		switch {
		case k < len(want) && strings.HasPrefix(want[k], "F."):
			class = "focus-report-lost"
		case k < len(want) && strings.HasPrefix(want[k], "P."):
			class = "paste-marker-lost"
		case k >= len(want):
			class = "text-spurious-event"
		case isMulti(cs) && items[k].r >= 0x80:
			class = "text-multibyte-lost"
		}
		got := "nothing"
		if k < len(all) {
			got = all[k]
		}
		exp := "nothing more"
		if k < len(want) {
			exp = want[k]
		}
		var stream []byte
		for _, x := range fs {
			stream = append(stream, x.b...)
		}
		res.Findings = append(res.Findings, h.Finding{Class: class, Msg: fmt.Sprintf("entry %s charset %s: sent %s as bytes %s in %d read(s); event #%d is %s, must be %s; delivered %v, %d byte(s) left buffered",
			ti.Name, cs, showItems(items), h.Hex(stream), len(fs), k, got, exp, all, left)})
	}
	for t := range tags {
		res.Tags = append(res.Tags, t)
	}
	sort.Strings(res.Tags)
	return res
}

func execText(line string) h.Result {
	f := strings.Fields(line)
	if len(f) < 2 {
		return h.Result{Obs: "bad-line"}
	}
	switch f[1] {
	case "law":
		return execLaw(f)
	case "run":
		return execRun(f)
	}
	return h.Result{Obs: "bad-line"}
}

// ---------------------------------------------------------------------------------------------------------------
// generators

// candidate runes for the character pools: boundaries of the UTF-8 lengths, Latin, Greek, Cyrillic, symbols, combining
// marks, kana (incl. half-width), CJK, Hangul, full-width forms, emoji, the last scalar value
var textRanges = [][2]rune{{0xA0, 0xFF}, {0x100, 0x17F}, {0x300, 0x36F}, {0x370, 0x3FF}, {0x400, 0x45F}, {0x5D0, 0x5EA}, {0x621, 0x64A}, {0x7FF, 0x801},
	{0x2010, 0x2027}, {0x20AC, 0x20AC}, {0x2190, 0x2193}, {0x2500, 0x257F}, {0x3000, 0x303F}, {0x3041, 0x3096}, {0x3099, 0x309A}, {0x30A1, 0x30FA},
	{0x4E00, 0x9FA5}, {0xAC00, 0xD7A3}, {0xD7FF, 0xD7FF}, {0xE000, 0xE001}, {0xF900, 0xFA2D}, {0xFF01, 0xFF5E}, {0xFF61, 0xFF9F}, {0xFFE0, 0xFFE6}, {0xFFFC, 0xFFFC}, {0xFFFE, 0xFFFF},
	{0x10000, 0x10001}, {0x1F300, 0x1F64F}, {0x20000, 0x2000F}, {0x10FFFE, 0x10FFFF}}

var c11Pools = map[string][]mbChar{}

// the characters of a charset a case may use: representable (encoder and decoder agree), first byte ≥ 0x80, printable
func c11Pool(cs string) []mbChar {
	if p, ok := c11Pools[cs]; ok {
		return p
	}
	var pool []mbChar
	if refIsUTF8(cs) {
		for _, rg := range textRanges {
			for r := rg[0]; r <= rg[1]; r++ {
				if r != utf8.RuneError {
					pool = append(pool, mbChar{[]byte(string(r)), r})
				}
			}
		}
	} else if cd := newCodec(cs); cd != nil {
		d := refEncoding(cs).NewDecoder()
		if !isMulti(cs) {
			for b := 0x80; b < 0x100; b++ { // KOI8 has box-drawing characters at 0x80..0x9F; C1 controls are filtered by rune
				enumChars(d, []byte{byte(b)}, func(c mbChar) {
					if inOracleDomain(c.r) {
						pool = append(pool, c)
					}
				})
			}
		} else {
			for _, rg := range textRanges {
				for r := rg[0]; r <= rg[1]; r++ {
					if out, ok := cd.representable(r); ok && out[0] >= 0x80 && inOracleDomain(r) && len(out) <= 4 {
						pool = append(pool, mbChar{append([]byte{}, out...), r})
					}
				}
			}
		}
	}
	c11Pools[cs] = pool
	return pool
}

// the multi-byte characters of a case, plus every byte ≥ 0x80 of the stream that is a character of the charset on its
// own (Shift_JIS half-width katakana): a parser that has lost a lead byte looks at the following bytes one by one
func textCharsetToken(cs string, used []mbChar, stream []byte) string {
	if refIsUTF8(cs) {
		return "utf8"
	}
	if !isMulti(cs) {
		return refCharsetToken(cs)
	}
	d := refEncoding(cs).NewDecoder()
	for _, b := range stream {
		if b >= 0x80 {
			res := rawDecode(d, []byte{b}, true)
			if r, sz := utf8.DecodeRune(res.out); res.err == nil && res.nIn == 1 && sz == res.nOut && r != utf8.RuneError {
				used = append(used, mbChar{[]byte{b}, r})
			}
		}
	}
	seen := map[string]bool{}
	var parts []string
	for _, c := range used {
		k := h.Hex(c.enc)
		if !seen[k] {
			seen[k] = true
			parts = append(parts, fmt.Sprintf("%s=%d", k, int(c.r)))
		}
	}
	sort.Strings(parts)
	return "mb:" + cs + ":" + strings.Join(parts, ",")
}

// refCharsetToken: the `tbl:<name>:<runes of 0x80..0xff>` token of a single-byte charset, with the table the NAME denotes
// (refcharsets.go) — the model and the oracle are evaluated with it, the parser under test with whatever is registered
func refCharsetToken(name string) string {
	enc := refEncoding(name)
	if enc == nil || refIsUTF8(name) {
		return "utf8"
	}
	d := enc.NewDecoder()
	rs := make([]string, 128)
	for i := 0; i < 128; i++ {
		out, err := d.Bytes([]byte{byte(128 + i)})
		r := rune(0xFFFD)
		if err == nil {
			if rr := []rune(string(out)); len(rr) == 1 {
				r = rr[0]
			}
		}
		rs[i] = strconv.Itoa(int(r))
	}
	return "tbl:" + name + ":" + strings.Join(rs, ",")
}

type tpiece struct {
	it  titem
	enc []byte
}

func hexChunks(chunks [][]byte) string {
	ss := make([]string, len(chunks))
	for i, c := range chunks {
		ss[i] = hexFeed(c, false)
	}
	return strings.Join(ss, " ")
}

func cutAt(b []byte, cuts []int) [][]byte {
	sort.Ints(cuts)
	var out [][]byte
	prev := 0
	for _, c := range cuts {
		if c <= prev || c >= len(b) {
			continue
		}
		out = append(out, b[prev:c])
		prev = c
	}
	return append(out, b[prev:])
}

func emitRun(g *h.Gen, entry, cs string, ps []tpiece, mode int) {
	var stream []byte
	var items []titem
	var used []mbChar
	var inner []int // offsets strictly inside a multi-byte item
	var bounds []int
	for _, p := range ps {
		for i := 1; i < len(p.enc); i++ {
			inner = append(inner, len(stream)+i)
		}
		stream = append(stream, p.enc...)
		bounds = append(bounds, len(stream))
		items = append(items, p.it)
		if p.it.kind == "r" && p.it.r >= 0x80 {
			used = append(used, mbChar{p.enc, p.it.r})
		}
	}
	if len(stream) == 0 {
		return
	}
	var cuts []int
	switch mode {
	case 0: // one read
	case 1: // one byte per read
		for i := 1; i < len(stream); i++ {
			cuts = append(cuts, i)
		}
	case 2: // every item split at one interior point
		prev := 0
		for _, b := range bounds {
			if b-prev > 1 {
				cuts = append(cuts, g.R.Range(prev+1, b-1))
			}
			prev = b
		}
	case 3: // a single cut inside an item
		if len(inner) > 0 {
			cuts = append(cuts, h.Pick(g.R, inner))
		}
	default: // random cuts
		for i := g.R.Range(1, 5); i > 0 && len(stream) > 1; i-- {
			cuts = append(cuts, g.R.Range(1, len(stream)-1))
		}
	}
	chunks := cutAt(stream, cuts)
	if g.R.Chance(5) { // an empty read (Feed with nothing new) changes nothing
		i := g.R.Intn(len(chunks) + 1)
		chunks = append(chunks[:i], append([][]byte{{}}, chunks[i:]...)...)
	}
	g.Emit("text run %s%s %s %s %s", entry, textVariant(), textCharsetToken(cs, used, stream), showItems(items), hexChunks(chunks))
}

func randText(g *h.Gen, cs string, n int) []tpiece {
	pool := c11Pool(cs)
	var out []tpiece
	for i := 0; i < n; i++ {
		if len(pool) == 0 || g.R.Chance(25) {
			r := rune(g.R.Range(0x20, 0x7e))
			out = append(out, tpiece{titem{"r", r}, []byte{byte(r)}})
			continue
		}
		c := h.Pick(g.R, pool)
		if refIsUTF8(cs) && g.R.Chance(30) { // balance the lengths
			want := g.R.Range(2, 4)
			for k := 0; k < 20 && len(c.enc) != want; k++ {
				c = h.Pick(g.R, pool)
			}
		}
		out = append(out, tpiece{titem{"r", c.r}, c.enc})
	}
	return out
}

func marker(k string) tpiece { return tpiece{titem{k, 0}, []byte(markerBytes[k])} }

func textEntries(g *h.Gen) []string {
	fixed := []string{"xterm-256color", "xterm", "linux", "vt100", "vt220", "rxvt-unicode-256color", "screen", "tmux", "alacritty", "ansi"}
	var out []string
	for _, n := range fixed {
		if entries()[n] != nil {
			out = append(out, n)
		}
	}
	if g.Thorough() {
		return primaryNames()
	}
	names := primaryNames()
	for i := 0; i < 4; i++ {
		out = append(out, h.Pick(g.R, names))
	}
	return out
}

func genText(g *h.Gen) {
	v := textVariant()
	// (a) codec laws
	for _, cs := range textSingle {
		g.Emit("text law xterm-256color%s %s -", v, cs)
	}
	g.Emit("text law vt100%s ISO8859-1 -", v)
	g.Emit("text law linux%s KOI8-R -", v)
	// every alias spelling: the name selects the same code page as the canonical one
	for _, cs := range textAliasSingle() {
		g.Emit("text law %s%s %s -", h.Pick(g.R, []string{"xterm-256color", "vt100", "linux"}), v, cs)
	}
	for _, cs := range append(append([]string{}, textAliasMulti()...), "UTF8") {
		pool := c11Pool(cs)
		for i := 0; i < g.N(60, 2000) && len(pool) > 0; i++ {
			c := h.Pick(g.R, pool)
			g.Emit("text law xterm-256color%s %s %s", v, cs, h.Hex(c.enc))
		}
		for i := 0; i < g.N(1, 40) && len(pool) > 0; i++ {
			g.Emit("text law xterm-256color%s %s %s", v, cs, h.Hex(h.Pick(g.R, pool).enc[:1]))
		}
	}
	all := append(append([]string{}, textMulti...), "UTF-8")
	if g.Thorough() {
		for _, cs := range all {
			for b := 0x80; b < 0x100; b++ {
				g.Emit("text law xterm-256color%s %s %02x", v, cs, b)
			}
		}
		for _, cs := range textMulti { // an entry without mouse / paste / focus support
			if cs != "GB18030" {
				g.Emit("text law vt100%s %s -", v, cs)
			}
		}
	} else {
		for _, cs := range all {
			pool := c11Pool(cs)
			for i := 0; i < 300 && len(pool) > 0; i++ {
				c := h.Pick(g.R, pool)
				g.Emit("text law %s%s %s %s", h.Pick(g.R, []string{"xterm-256color", "xterm-256color", "vt100", "linux"}), v, cs, h.Hex(c.enc))
			}
			// a few whole lead bytes
			for i := 0; i < 3 && len(pool) > 0; i++ {
				c := h.Pick(g.R, pool)
				if cs == "GB18030" && len(c.enc) == 4 {
					g.Emit("text law xterm-256color%s %s %s", v, cs, h.Hex(c.enc[:3]))
				} else {
					g.Emit("text law xterm-256color%s %s %s", v, cs, h.Hex(c.enc[:1]))
				}
			}
		}
	}
	// (b) texts × partitions
	ents := textEntries(g)
	charsets := append(append([]string{"UTF-8", "UTF-8", "UTF-8", "US-ASCII"}, textMulti...), textMulti...)
	charsets = append(charsets, textSingle...)
	// alias spellings (a third of the weight of the canonical names)
	for i := 0; i < 7; i++ {
		charsets = append(charsets, h.Pick(g.R, textAliasSingle()))
	}
	charsets = append(charsets, textAliasMulti()...)
	// focus report directly followed by text, on every entry that enables focus reporting (deterministic)
	for _, name := range ents {
		ti := entries()[name]
		d := tcell.VerifDerived(ti)
		if d["enableFocus"] == "" {
			continue
		}
		for _, k := range []string{"FI", "FO"} {
			for _, r := range []rune{'a', 'd', 'M', '~', 'I', 'O', '<', '2'} {
				ps := []tpiece{marker(k), {titem{"r", r}, []byte{byte(r)}}}
				emitRun(g, name, "UTF-8", ps, 0)
				emitRun(g, name, "UTF-8", ps, 1)
			}
		}
	}
	for i := 0; i < g.N(5000, 120000); i++ {
		name := h.Pick(g.R, ents)
		ti := entries()[name]
		d := tcell.VerifDerived(ti)
		cs := h.Pick(g.R, charsets)
		var ps []tpiece
		switch g.R.Intn(10) {
		case 0, 1, 2, 3, 4: // plain text
			ps = randText(g, cs, g.R.Range(1, 12))
		case 5, 6, 7: // pasted text, possibly with typed text around it
			if d["enablePaste"] == "" {
				ps = randText(g, cs, g.R.Range(1, 12))
				break
			}
			ps = randText(g, cs, g.R.Range(0, 3))
			ps = append(ps, marker("PS"))
			ps = append(ps, randText(g, cs, g.R.Range(0, 10))...)
			ps = append(ps, marker("PE"))
			ps = append(ps, randText(g, cs, g.R.Range(0, 3))...)
		default: // focus reports between characters
			ps = randText(g, cs, g.R.Range(0, 6))
			if d["enableFocus"] != "" {
				for k := g.R.Range(1, 3); k > 0; k-- {
					at := g.R.Intn(len(ps) + 1)
					m := marker(h.Pick(g.R, []string{"FI", "FO"}))
					ps = append(ps[:at], append([]tpiece{m}, ps[at:]...)...)
				}
			}
		}
		emitRun(g, name, cs, ps, 0)
		emitRun(g, name, cs, ps, h.Pick(g.R, []int{1, 2, 3, 4, 4}))
		if g.R.Chance(30) {
			emitRun(g, name, cs, ps, 2)
		}
	}
}
