package engines

import (
	"encoding/base64"
	"fmt"
	"strings"
	"unicode/utf8"

	"github.com/gdamore/tcell/v2"
	"github.com/gdamore/tcell/v2/terminfo"
	"verif/harness/h"
)

// C02, engine `parsechunk`: generator (token strings with every token kind, all single split points of short strings,
// random partitions, random bytes, every database entry) and the "no swallow" oracle.
//
// The oracle rests on an independent tokeniser written from the protocol descriptions (ECMA-48 CSI/OSC framing, xterm
// ctlseqs "Mouse Tracking", "FocusIn/FocusOut", "Bracketed Paste Mode", OSC 52 "Manipulate Selection Data", UTF-8
// RFC 3629, the key strings of the terminal description, ESC-prefix = Alt), not from tscreen.go.  It only decides where
// one sequence ends and the next begins.  The statement checked: a stream that consists of recognised sequences decodes
// to the concatenation of what each sequence decodes to on its own (in the state its predecessors leave), i.e. no
// sequence swallows or corrupts bytes that precede or follow it.

type ctok struct {
	kind string
	b    []byte
}

func isB64Byte(c byte) bool {
	return (c >= 'A' && c <= 'Z') || (c >= 'a' && c <= 'z') || (c >= '0' && c <= '9') || c == '+' || c == '/' || c == '='
}

// csiLen: length of a CSI introducer at s (ESC [ always; the C1 byte 0x9B only where the charset does not claim it)
func csiLen(s []byte, utf bool) int {
	if len(s) >= 2 && s[0] == 0x1b && s[1] == '[' {
		return 2
	}
	if utf && len(s) >= 1 && s[0] == 0x9b {
		return 1
	}
	return 0
}

func sgrLen(s []byte, utf bool) int {
	i := csiLen(s, utf)
	if i == 0 || i >= len(s) || s[i] != '<' {
		return 0
	}
	i++
	for f := 0; f < 3; f++ {
		st := i
		if i < len(s) && s[i] == '-' {
			i++
		}
		d := i
		for i < len(s) && s[i] >= '0' && s[i] <= '9' {
			i++
		}
		if i-st > 17 { // digits may be missing: the parser reads an empty field as 0; that is still one report
			return 0
		}
		_ = d
		if f < 2 {
			if i >= len(s) || s[i] != ';' {
				return 0
			}
			i++
		}
	}
	if i < len(s) && (s[i] == 'M' || s[i] == 'm') {
		return i + 1
	}
	return 0
}

func x11Len(s []byte, utf bool) int {
	i := csiLen(s, utf)
	if i == 0 || i >= len(s) || s[i] != 'M' || len(s) < i+4 {
		return 0
	}
	return i + 4
}

func osc52Len(s []byte) (int, string) {
	p := "\x1b]52;c;"
	if !strings.HasPrefix(string(s), p) {
		return 0, ""
	}
	i := len(p)
	for i < len(s) && isB64Byte(s[i]) {
		i++
	}
	if i < len(s) && s[i] == 7 {
		return i + 1, "osc52-bel"
	}
	if i+1 < len(s) && s[i] == 0x1b && s[i+1] == '\\' {
		return i + 2, "osc52-st"
	}
	return 0, ""
}

// one plain (non-ESC-prefixed) item at s: key of the description, or a character
func plainLen(s []byte, keys []string, utf bool) (int, string) {
	best := 0
	for _, k := range keys {
		if k != "\x1b" && len(k) > best && strings.HasPrefix(string(s), k) {
			best = len(k)
		}
	}
	if best > 0 {
		return best, "key"
	}
	c := s[0]
	if c >= 0x20 && c <= 0x7f {
		return 1, "ascii"
	}
	if c >= 0x80 {
		if !utf {
			return 1, "char8"
		}
		r, n := utf8.DecodeRune(s)
		if r != utf8.RuneError && n > 1 {
			return n, fmt.Sprintf("utf8-%d", n)
		}
		if n == 3 {
			return 0, "" // a well-formed U+FFFD: the statement does not say whether the replacement character is input
		}
		return 1, "invalid"
	}
	return 0, ""
}

// tokenise splits the stream; ok=false when some stretch is not a sequence the statement speaks about, or when two
// readings compete at one position (then the statement does not say which one wins).
func tokenise(s []byte, ti *terminfo.Terminfo, keys []string, utf bool) ([]ctok, bool) {
	var out []ctok
	mouse := ti.Mouse != ""
	for i := 0; i < len(s); {
		rest := s[i:]
		type cand struct {
			n    int
			kind string
		}
		var cs []cand
		if n, k := plainLen(rest, keys, utf); n > 0 {
			cs = append(cs, cand{n, k})
		}
		if len(rest) >= 3 && rest[0] == 0x1b && rest[1] == '[' && (rest[2] == 'I' || rest[2] == 'O') {
			cs = append(cs, cand{3, "focus"})
		}
		if mouse {
			if n := sgrLen(rest, utf); n > 0 {
				cs = append(cs, cand{n, "sgr"})
			}
			if n := x11Len(rest, utf); n > 0 {
				cs = append(cs, cand{n, "x11"})
			}
		}
		if n, k := osc52Len(rest); n > 0 {
			cs = append(cs, cand{n, k})
		}
		if len(cs) == 0 && rest[0] == 0x1b && len(rest) >= 2 {
			// ESC prefix = Alt: ESC followed by a key or character that is not itself the start of something longer
			if n, k := plainLen(rest[1:], keys, utf); n > 0 && k != "invalid" && rest[1] != 0x1b {
				cs = append(cs, cand{1 + n, "alt-" + k})
			}
		}
		if len(cs) == 0 && rest[0] == 0x1b && len(rest) == 1 {
			cs = append(cs, cand{1, "esc"})
		}
		if len(cs) != 1 {
			return out, false
		}
		// the C1 CSI byte / invalid byte readings compete with the mouse readings only through 0x9B, handled by csiLen
		out = append(out, ctok{cs[0].kind, rest[:cs[0].n]})
		i += cs[0].n
	}
	return out, len(out) > 0
}

func multisetDiff(a, b []string) []string {
	m := map[string]int{}
	for _, x := range b {
		m[x]++
	}
	var out []string
	for _, x := range a {
		if m[x] > 0 {
			m[x]--
		} else {
			out = append(out, x)
		}
	}
	return out
}

// swallowOracle: tags describing the stream (token kinds, where the cuts fall) and the no-swallow check.
func swallowOracle(ti *terminfo.Terminfo, cs string, w, hh int, fs []feed) ([]h.Finding, []string) {
	var stream []byte
	var cuts []int
	for i, f := range fs {
		if f.expire && i != len(fs)-1 {
			return nil, []string{"expire-inside"}
		}
		stream = append(stream, f.b...)
		if i != len(fs)-1 {
			cuts = append(cuts, len(stream))
		}
	}
	if len(stream) == 0 {
		return nil, nil
	}
	utf := cs == "UTF-8"
	keys := entryKeySeqs(ti)
	toks, ok := tokenise(stream, ti, keys, utf)
	var tags []string
	pos := 0
	for _, t := range toks {
		tags = append(tags, "tok:"+t.kind)
		for _, c := range cuts {
			if c > pos && c < pos+len(t.b) {
				tags = append(tags, "cut-in:"+t.kind)
			} else if c == pos+len(t.b) {
				tags = append(tags, "cut-at-boundary")
			}
		}
		pos += len(t.b)
	}
	if !ok {
		tags = append(tags, "stream:not-tokenised")
		return nil, tags
	}
	tags = append(tags, "stream:tokenised")
	// whole stream in one read, timeout at the end; each sequence on its own (same parser, so press/drag state carries)
	_, whole, wleft := runFeeds(ti, cs, w, hh, []feed{{stream, true}})
	var single []feed
	for _, t := range toks {
		single = append(single, feed{t.b, true})
	}
	eobs, each, eleft := runFeeds(ti, cs, w, hh, single)
	// a recognised sequence yields its own event and nothing else (it consumes exactly its bytes)
	for i, t := range toks {
		want := ""
		switch t.kind {
		case "focus":
			want = "F."
		case "sgr", "x11":
			want = "M."
		case "ascii":
			want = fmt.Sprintf("K.256.%d.", t.b[0])
			if t.b[0] == 0x7f {
				want = "K.127."
			}
		}
		if want == "" {
			continue
		}
		evs := strings.SplitN(eobs[i], "/", 2)[0]
		if strings.Contains(evs, ",") || !strings.HasPrefix(evs, want) {
			return []h.Finding{{Class: "sequence-miscounted", Msg: fmt.Sprintf("%s sequence %s (%s) fed on its own with the timeout decodes to %s, want exactly one %s event",
				activeParsers(ti), h.Hex(t.b), t.kind, eobs[i], want)}}, tags
		}
	}
	if strings.Join(whole, ",") == strings.Join(each, ",") && wleft == eleft {
		return nil, tags
	}
	lost := multisetDiff(each, whole)
	extra := multisetDiff(whole, each)
	class := "swallow-reordered"
	first := 0
	for first < len(whole) && first < len(each) && whole[first] == each[first] {
		first++
	}
	switch {
	case first < len(whole) && strings.HasPrefix(whole[first], "M."):
		// where the two decodings part, the one-read decoding has a mouse report: bytes in front of / inside it went into it
		class = "swallow-into-mouse-report"
	case len(lost) > 0 && len(extra) == 0:
		class = "swallow-lost-events"
	case len(extra) > 0:
		class = "swallow-corrupted"
	}
	var kinds []string
	for _, t := range toks {
		kinds = append(kinds, t.kind)
	}
	return []h.Finding{{Class: class, Msg: fmt.Sprintf("%s bytes %s = sequences %v: one read → %v (+%d buffered); each sequence on its own → %v; lost %v, extra %v",
		activeParsers(ti), h.Hex(stream), kinds, whole, wleft, each, lost, extra)}}, tags
}

// activeParsers names the optional parsers of the screen built for ti (for the finding message)
func activeParsers(ti *terminfo.Terminfo) string {
	s := "parsers=key+focus"
	if ti.Mouse != "" {
		s += "+mouse"
	}
	if tcell.VerifDerived(ti)["setClipboard"] != "" {
		s += "+clip"
	}
	return s
}

// ---- generator

type gtok struct {
	kind string
	b    []byte
}

func cTokens(g *h.Gen, ti *terminfo.Terminfo, keys []string) []gtok {
	pay := h.Pick(g.R, []string{"aGVsbG8=", "", "QQ==", "QUI=", "QUJD", "aGVsbG8gd29ybGQ=", "QQ=", "Q", "QUJDRA=="})
	key := []byte(h.Pick(g.R, keys))
	rs := []rune{'a', 'Z', ' ', '~', 0x7f, 0xe9, 0x20ac, 0x4e16, 0x1f600, 0x80, 0x7ff, 0x800, 0xffff, 0x10000, 0x10ffff}
	inv := [][]byte{{0x80}, {0xc3}, {0xe2, 0x82}, {0xf0, 0x9f, 0x98}, {0xc0, 0xaf}, {0xed, 0xa0, 0x80}, {0xff}, {0xf5, 0x80, 0x80, 0x80}, {0x9b}}
	rnd := make([]byte, g.R.Range(1, 5))
	for i := range rnd {
		rnd[i] = byte(g.R.Intn(256))
	}
	return []gtok{
		{"key", key}, {"key", []byte(h.Pick(g.R, keys))},
		{"sgr", randMouseReport(g, 80, 24, 100)}, {"x11", randMouseReport(g, 80, 24, 0)},
		{"paste", []byte(h.Pick(g.R, []string{"\x1b[200~", "\x1b[201~"}))},
		{"focus", []byte(h.Pick(g.R, []string{"\x1b[I", "\x1b[O"}))},
		{"osc52-bel", []byte("\x1b]52;c;" + pay + "\a")}, {"osc52-st", []byte("\x1b]52;c;" + pay + "\x1b\\")},
		{"utf8", []byte(string(h.Pick(g.R, rs)))}, {"invalid", h.Pick(g.R, inv)},
		{"ctrl", []byte{byte(g.R.Intn(32))}}, {"esc", []byte{0x1b}}, {"alt", append([]byte{0x1b}, key...)},
		{"altchar", []byte{0x1b, byte(g.R.Range(0x20, 0x7e))}},
		{"text", []byte(h.Pick(g.R, []string{"x", "hello", "\r", "\t", "q", "M", "[", "<", ";", "\\", "\a"}))},
		{"nearmiss", []byte(h.Pick(g.R, []string{"\x1b[", "\x1b[<", "\x1b[M", "\x1b]52;c;", "\x1b]52", "\x1b[<0;1", "\x1b[<0;1;1", "\x1bq[<0;5;5M", "\x1b[<-;1;1M",
			"\x1b[<;;M", "\x1b[<1;2;3;4M", "\x1b[20", "\x1bO", "\x1babcdefgh\a", "\x1b]53;c;QUJD\a", "\x1b]52;p;QUJD\a", "\x1b]52;c;QUJD\x1bx", "\x1b]52;c;QU*D\a", "\xff\x1b[<0;5;5M",
			// bytes that belong to no SGR report in front of, inside and behind one (fixes/C02-sgr-strict.patch)
			"\x1b[<0:5;5M", "\x1b[<<0;5;5M", "\x1b[<0;5;5xM", "\x1b[[<0;5;5M", "\x1b[<0;5 ;5M", "\x1b[<0 ;5;5M", "\x1b [<0;5;5M", "\x1b[ <0;5;5M",
			"\x1b[<0;5;5~", "\x1b[<0;5;5;M", "\x1b[<0;5M", "z\x1b[<0;5;5M", "\xc3\x1b[<0;5;5m", "\x1b[<\xe9"+"0;5;5M"}))},
		{"random", rnd},
	}
}

func emitSplits(g *h.Gen, name, cs string, s []byte, expire bool, all bool) {
	pre := fmt.Sprintf("parsechunk %s%s %s 80 24 ", name, variantSuffix(), cs)
	if all && len(s) <= 24 {
		for c := 1; c < len(s); c++ {
			g.Lines = append(g.Lines, pre+hexFeed(s[:c], false)+" "+hexFeed(s[c:], expire))
		}
		return
	}
	g.Lines = append(g.Lines, pre+partition(g, s, expire))
}

func genParseChunk(g *h.Gen) {
	vs := variantSuffix()
	// (a) the inputs of the `example`s / counterexample theorems of Tcell.Props.C02, on real entries
	reply := "1b5d35323b633b6147567362473838" + "3d07"
	replySt := "1b5d35323b633b51554a441b5c"
	for _, e := range []string{"xterm-256color", "xterm", "alacritty"} {
		g.Emit("parsechunk %s%s utf8 80 24 %s78:0", e, vs, reply)
		g.Emit("parsechunk %s%s utf8 80 24 %s:0 78:0", e, vs, reply)
		g.Emit("parsechunk %s%s utf8 80 24 %s78:0", e, vs, replySt)
		g.Emit("parsechunk %s%s utf8 80 24 %s:0 78:0", e, vs, replySt)
		g.Emit("parsechunk %s%s utf8 80 24 %s1b5b491b5b3c303b353b354d:0", e, vs, replySt)
		g.Emit("parsechunk %s%s utf8 80 24 1b5d35:0 323b633b614756736247:0 38383d0778:0", e, vs)
		g.Emit("parsechunk %s%s utf8 80 24 1b61626364656667:0 6807:1", e, vs)
		g.Emit("parsechunk %s%s utf8 80 24 1b715b3c303b353b354d:0", e, vs)
		g.Emit("parsechunk %s%s utf8 80 24 1b715b3c303b353b354d:1", e, vs)   // sgr_junk_swallowed / sgr_strict_delivers
		g.Emit("parsechunk %s%s utf8 80 24 ff1b5b3c303b353b354d:1", e, vs)   // sgr_strict_delivers_ff
		g.Emit("parsechunk %s%s utf8 80 24 1b78:0", e, vs)                   // sgr_pinned_esc_waits / sgr_strict_esc_immediate
		g.Emit("parsechunk %s%s utf8 80 24 1b78:0 -:1", e, vs)
		g.Emit("parsechunk %s%s utf8 80 24 1b5b3c303b353b354d7879:0", e, vs) // example of sgr_no_junk
		g.Emit("parsechunk %s%s utf8 80 24 1b:1", e, vs)
	}
	// bytes that belong to no SGR report in front of / inside / behind one, at every position of the report (property:
	// "a recognised sequence never swallows … bytes that precede or follow it"; fixes/C02-sgr-strict.patch), whole and split
	rep := []byte("\x1b[<0;15;5M")
	for pos := 0; pos <= len(rep); pos++ {
		for _, junk := range []string{"x", ":", "<", "[", " ", "\x1b", "~", "\xc3\xa9"} {
			if pos == len(rep) && junk == "\x1b" {
				continue
			}
			b := append(append(append([]byte{}, rep[:pos]...), junk...), rep[pos:]...)
			g.Emit("parsechunk xterm-256color%s utf8 80 24 %s", vs, hexFeed(b, true))
			if g.R.Chance(25) {
				c := g.R.Range(1, len(b)-1)
				g.Emit("parsechunk xterm-256color%s utf8 80 24 %s %s", vs, hexFeed(b[:c], false), hexFeed(b[c:], true))
			}
		}
	}
	// long OSC 52 replies (a selection of a few hundred bytes is ordinary): payload lengths around powers of two, delivered
	// in 128-byte reads as inputLoop does, in reads of other sizes, and with a single split — "any partition … yields the
	// same events" has no length bound
	for _, n := range []int{3, 48, 93, 96, 189, 192, 195, 381, 384, 768, 1536, 3072} {
		raw := make([]byte, n)
		for i := range raw {
			raw[i] = byte('a' + (i*7+n)%26)
		}
		for ti, term := range []string{"\a", "\x1b\\"} {
			b := []byte("\x1b]52;c;" + base64.StdEncoding.EncodeToString(raw) + term + "x")
			for _, sz := range []int{128, 64, 100, 1000} {
				if sz >= len(b) || (ti == 1 && sz != 128) {
					continue
				}
				var fs []string
				for o := 0; o < len(b); o += sz {
					e := o + sz
					if e > len(b) {
						e = len(b)
					}
					fs = append(fs, hexFeed(b[o:e], false))
				}
				g.Emit("parsechunk xterm-256color%s utf8 80 24 %s", vs, strings.Join(fs, " "))
			}
			c := g.R.Range(1, len(b)-1)
			g.Emit("parsechunk alacritty%s utf8 80 24 %s %s", vs, hexFeed(b[:c], false), hexFeed(b[c:], true))
		}
	}
	g.Emit("parsechunk rxvt%s utf8 80 24 1b5b4f61:0", vs)
	g.Emit("parsechunk rxvt%s utf8 80 24 1b5b4f:0 61:0", vs)

	css := []string{"utf8", "utf8", "utf8", charsetToken("ISO8859-1"), charsetToken("KOI8-R")}
	// (b) every database entry: key sequences whose proper prefix already decodes on its own (a later parser would win
	// when the read ends there), and a sample of keys (all keys when thorough) at every split point
	for _, name := range primaryNames() {
		ti := entries()[name]
		keys := entryKeySeqs(ti)
		for _, k := range keys {
			for c := 2; c < len(k); c++ {
				if _, all, left := runFeeds(ti, "UTF-8", 80, 24, []feed{{[]byte(k[:c]), false}}); len(all) > 0 && left == 0 {
					g.Emit("parsechunk %s%s utf8 80 24 %s %s", name, vs, hexFeed([]byte(k[:c]), false), hexFeed([]byte(k[c:]), false))
				}
			}
		}
		n := g.N(6, len(keys))
		for i := 0; i < n && len(keys) > 0; i++ {
			k := keys[(i+int(g.R.Intn(len(keys))))%len(keys)]
			if g.Thorough() {
				k = keys[i]
			}
			tail := h.Pick(g.R, []string{"", "x", "\x1b[I", k})
			emitSplits(g, name, "utf8", []byte(k+tail), g.R.Chance(50), true)
		}
	}
	// (c) token strings on rotating entries (all entries when thorough): all single splits of short strings, random
	// partitions (incl. one byte per read) of longer ones
	for _, name := range rotatingEntries(g, 6) {
		ti := entries()[name]
		keys := entryKeySeqs(ti)
		for i := 0; i < g.N(90, 500); i++ {
			toks := cTokens(g, ti, keys)
			var s []byte
			for k := g.R.Range(1, 4); k > 0; k-- {
				s = append(s, h.Pick(g.R, toks).b...)
			}
			cs := h.Pick(g.R, css)
			emitSplits(g, name, cs, s, g.R.Chance(50), g.R.Chance(35))
			if g.R.Chance(40) {
				g.Lines = append(g.Lines, fmt.Sprintf("parsechunk %s%s %s 80 24 %s", name, vs, cs, partition(g, s, g.R.Chance(60))))
			}
			if g.R.Chance(10) {
				g.Lines = append(g.Lines, fmt.Sprintf("parsechunk %s%s %s 80 24 %s %s", name, vs, cs, partition(g, s, false), hexFeed(nil, true)))
			}
		}
	}
	// (d) random bytes, uniform and from the alphabet of the escape sequences
	alpha := []byte("\x1b\x1b\x1b[[<;;MmOI]52c;\a\\0123456789~AB=\x9b\xc3\xa9\xe2\x82\xac\xff\x00\x7f")
	for i := 0; i < g.N(1500, 60000); i++ {
		n := g.R.Range(1, 14)
		b := make([]byte, n)
		for j := range b {
			if i%2 == 0 {
				b[j] = byte(g.R.Intn(256))
			} else {
				b[j] = h.Pick(g.R, alpha)
			}
		}
		name := h.Pick(g.R, []string{"xterm-256color", "xterm-256color", "linux", "vt100", "rxvt", "screen", "foot"})
		g.Lines = append(g.Lines, fmt.Sprintf("parsechunk %s%s %s 80 24 %s", name, vs, h.Pick(g.R, css), partition(g, b, g.R.Chance(50))))
	}
}
