package engines

import (
	"fmt"
	"os"
	"runtime"
	"strings"
	"sync/atomic"
	"syscall"
	"time"

	"golang.org/x/sys/unix"

	"github.com/gdamore/tcell/v2"
	"github.com/gdamore/tcell/v2/terminfo"
	"verif/harness/h"
)

// Engine ptylife — C06 on the library's OWN tty driver (tty_unix.go devTty: Start / Drain / Stop / Close, the SIGWINCH
// watcher, the VMIN/VTIME trick that unblocks the reader): a terminfo screen on a real pseudo-terminal, life-cycle calls
// under window-size notifications.  Everything else in /verif drives the screen through the in-memory FakeTty; this
// engine is the only place where Suspend / Resume / Fini run against the stock Tty.
//
//	ptylife <mode> <n> <winch>
//	  mode   cycle   Init, then n × (Suspend; Resume), then Fini            — one screen
//	         lives   n × (new screen; Init; [Suspend; Resume]; Fini)        — one screen per life, same pty
//	         idle    Init; Fini n times with nothing in between              — back-to-back lives
//	  winch  0 | 1 | 2   no notifications | SIGWINCH to the process as fast as possible from 2 goroutines |
//	                     real size changes of the pty (TIOCSWINSZ) plus SIGWINCH
//
// reply: `ok` (also what the Lean driver answers: the model's statement is that every such call returns) or `hang <call>`.
// Oracle: every Init / Suspend / Resume / Fini returns within 8 s (class hang:<call>, with the tcell frames of the goroutine
// dump); after Fini PollEvent returns nil at once (poll-after-fini).  No pty in the sandbox ⇒ `ok`, tag no-pty (inconclusive).

func ptyOpen() (*os.File, string, error) {
	m, err := os.OpenFile("/dev/ptmx", os.O_RDWR|unix.O_NOCTTY, 0)
	if err != nil {
		return nil, "", err
	}
	if err := unix.IoctlSetPointerInt(int(m.Fd()), unix.TIOCSPTLCK, 0); err != nil {
		m.Close()
		return nil, "", err
	}
	n, err := unix.IoctlGetInt(int(m.Fd()), unix.TIOCGPTN)
	if err != nil {
		m.Close()
		return nil, "", err
	}
	return m, fmt.Sprintf("/dev/pts/%d", n), nil
}

func tcellFrames() string {
	buf := make([]byte, 1<<20)
	buf = buf[:runtime.Stack(buf, true)]
	var out []string
	for _, g := range strings.Split(string(buf), "\n\n") {
		if !strings.Contains(g, "gdamore/tcell") || strings.Contains(g, "engines.execPtyLife") && !strings.Contains(g, "tcell/v2.(") {
			continue
		}
		var fr []string
		for _, l := range strings.Split(g, "\n") {
			if strings.Contains(l, "gdamore/tcell/v2.(") || strings.HasPrefix(l, "sync.") || strings.HasPrefix(l, "goroutine ") {
				fr = append(fr, strings.TrimSpace(l))
			}
		}
		if len(fr) > 1 {
			out = append(out, strings.Join(fr, " < "))
		}
	}
	s := strings.Join(out, " || ")
	if len(s) > 1500 {
		s = s[:1500] + "…"
	}
	return s
}

func execPtyLife(line string) h.Result {
	f := strings.Fields(line)
	if len(f) != 4 || f[0] != "ptylife" {
		return h.Result{Obs: "bad-line"}
	}
	mode, n, winch := f[1], h.Atoi(f[2]), h.Atoi(f[3])
	res := h.Result{Obs: "ok", Nontrivial: true}
	master, name, err := ptyOpen()
	if err != nil {
		res.Tags = []string{"no-pty"}
		res.Nontrivial = false
		return res
	}
	defer master.Close()
	_ = unix.IoctlSetWinsize(int(master.Fd()), unix.TIOCSWINSZ, &unix.Winsize{Row: 24, Col: 80})
	go func() { // the terminal side: swallow everything the screen writes
		b := make([]byte, 65536)
		for {
			if _, e := master.Read(b); e != nil {
				return
			}
		}
	}()
	ti := terminfo.VerifEntries()["xterm-256color"]
	var stop int32
	defer atomic.StoreInt32(&stop, 1)
	if winch > 0 {
		pid := os.Getpid()
		for i := 0; i < 2; i++ {
			go func(i int) {
				k := 0
				for atomic.LoadInt32(&stop) == 0 {
					if winch == 2 && i == 0 {
						k++
						_ = unix.IoctlSetWinsize(int(master.Fd()), unix.TIOCSWINSZ, &unix.Winsize{Row: uint16(20 + k%10), Col: uint16(70 + k%20)})
					}
					_ = syscall.Kill(pid, syscall.SIGWINCH)
					runtime.Gosched()
				}
			}(i)
		}
	}
	hung := func(call string) h.Result {
		res.Obs = "hang " + call
		res.Findings = append(res.Findings, h.Finding{Class: "hang:" + call, Msg: fmt.Sprintf("%s on a real pseudo-terminal (stock devTty) did not return within 8 s (mode %s, window-size notifications %d); parked tcell frames: %s", call, mode, winch, tcellFrames())})
		return res
	}
	call := func(name string, fn func()) bool {
		done := make(chan struct{})
		go func() { fn(); close(done) }()
		select {
		case <-done:
			return true
		case <-time.After(8 * time.Second):
			return false
		}
	}
	newScreen := func() (tcell.Screen, bool) {
		tty, err := tcell.NewDevTtyFromDev(name)
		if err != nil {
			return nil, false
		}
		tic := *ti
		s, err := tcell.NewTerminfoScreenFromTtyTerminfo(tty, &tic)
		if err != nil {
			return nil, false
		}
		return s, true
	}
	lives := 1
	if mode != "cycle" {
		lives = n
	}
	for l := 0; l < lives; l++ {
		s, ok := newScreen()
		if !ok {
			res.Tags = append(res.Tags, "no-pty")
			return res
		}
		var ierr error
		if !call("Init", func() { ierr = s.Init() }) {
			return hung("Init")
		}
		if ierr != nil {
			res.Tags = append(res.Tags, "init-error")
			return res
		}
		polled := make(chan struct{})
		go func() {
			for s.PollEvent() != nil {
			}
			close(polled)
		}()
		cycles := 0
		switch mode {
		case "cycle":
			cycles = n
		case "lives":
			cycles = l % 2
		}
		for c := 0; c < cycles; c++ {
			if !call("Suspend", func() { _ = s.Suspend() }) {
				return hung("Suspend")
			}
			if !call("Resume", func() { _ = s.Resume() }) {
				return hung("Resume")
			}
		}
		if !call("Fini", func() { s.Fini() }) {
			return hung("Fini")
		}
		select {
		case <-polled:
		case <-time.After(3 * time.Second):
			res.Findings = append(res.Findings, h.Finding{Class: "poll-after-fini", Msg: "PollEvent did not return nil within 3 s of Fini on a real pseudo-terminal"})
		}
	}
	res.Tags = append(res.Tags, "mode:"+mode, fmt.Sprintf("winch:%d", winch))
	return res
}

func genPtyLife(g *h.Gen) {
	for _, w := range []int{0, 1, 2} {
		g.Emit("ptylife cycle %d %d", g.N(60, 600), w)
		g.Emit("ptylife lives %d %d", g.N(12, 120), w)
		g.Emit("ptylife idle %d %d", g.N(12, 120), w)
	}
}

func init() {
	h.Register(&h.Engine{Name: "ptylife",
		Rule: "a terminfo screen on a real pseudo-terminal with the library's own tty driver: Suspend/Resume cycles on one screen, whole lives back to back, with no / SIGWINCH / real size-change notifications arriving as fast as the machine allows; distinct = distinct line; non-trivial = a pty was available",
		Gen:  genPtyLife, Exec: execPtyLife})
}
