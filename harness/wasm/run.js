// Node runner for harness/wasm (C19):  node run.js <wasm_exec.js> <harness.wasm> <cases.txt> [webkeys.txt]
//
// Provides a *recording stand-in for webfiles/tcell.js*: the global functions wscreen.go calls through
// syscall/js (drawCell, clearScreen, show, showCursor, setCursorStyle, resize, beep, setTitle) only log their
// arguments; verifTake() hands the log to the Go side as JSON; verifFire(name, …args) invokes the callback the Go
// side registered under a global name (onKeyEvent, onMouseClick, onMouseMove, onPaste, onFocus) the way tcell.js
// would; verifReset() forgets the callbacks of the previous case.
"use strict";
const fs = require("fs");
globalThis.require = require;
globalThis.fs = fs;
globalThis.TextEncoder = require("util").TextEncoder;
globalThis.TextDecoder = require("util").TextDecoder;
globalThis.performance ??= require("perf_hooks").performance;
globalThis.crypto ??= require("crypto");
require(process.argv[2]);

let calls = [];
const rec = (f) => (...a) => { calls.push({ f, a }); };
globalThis.drawCell = (x, y, s, fg, bg, attrs, us, uc) => {
  // text as code points, so that nothing depends on UTF-16
  calls.push({ f: "drawCell", a: [x, y, Array.from(String(s)).map((c) => c.codePointAt(0)), fg, bg, attrs, us, uc] });
};
globalThis.clearScreen = rec("clearScreen");
globalThis.show = rec("show");
globalThis.showCursor = rec("showCursor");
globalThis.setCursorStyle = rec("setCursorStyle");
globalThis.resize = rec("resize");
globalThis.beep = rec("beep");
globalThis.setTitle = rec("setTitle");
globalThis.verifTake = () => { const s = JSON.stringify(calls); calls = []; return s; };
const callbacks = ["onKeyEvent", "onMouseClick", "onMouseMove", "onPaste", "onFocus"];
globalThis.verifReset = () => { for (const n of callbacks) delete globalThis[n]; calls = []; };
globalThis.verifFire = (name, ...args) => {
  if (typeof globalThis[name] !== "function") return "undef";
  globalThis[name](...args);
  return "ok";
};

let armed = null;
globalThis.verifArm = (id) => { armed = setTimeout(() => { armed = null; globalThis.verifIdle(id); }, 0); };
globalThis.verifDisarm = () => { if (armed) clearTimeout(armed); armed = null; };

const go = new Go();
go.argv = process.argv.slice(3);
go.env = {};
go.exit = process.exit;
const limit = setTimeout(() => { console.error("run.js: time limit exceeded"); process.exit(3); }, 1000 * (parseInt(process.env.VERIF_WASM_TIMEOUT || "1500")));
WebAssembly.instantiate(fs.readFileSync(process.argv[3]), go.importObject).then((result) => {
  process.on("exit", (code) => {
    if (code === 0 && !go.exited) { // every goroutine blocked outside a watchdog: let the Go runtime report it
      go._pendingEvent = { id: 0 };
      go._resume();
    }
  });
  return go.run(result.instance);
}).then(() => { clearTimeout(limit); }).catch((err) => { console.error(err); process.exit(1); });
