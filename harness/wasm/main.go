//go:build js && wasm

// Program run under Node by harness/wasm/run.js (C19).  It executes the `wasm …` case lines of the file named in
// argv[1] on the real js/wasm screen (tcell.NewTerminfoScreen = wScreen behind baseScreen), with run.js providing a
// recording stand-in for webfiles/tcell.js, and prints one JSON line per case:
//
//	{"obs": canonical observation, "findings": [{class,msg}], "tags": [...], "nontrivial": bool}
//
// The oracle below is written from the property text: it replays the recorded drawCell/clearScreen/resize calls
// into a page grid and compares it with what the application set (read back with GetContent before each Show).
package main

import (
	"runtime"
	"encoding/hex"
	"encoding/json"
	"fmt"
	"os"
	"reflect"
	"strconv"
	"strings"
	"syscall/js"

	"github.com/gdamore/tcell/v2"
)

type finding struct {
	Class string `json:"class"`
	Msg   string `json:"msg"`
}

type result struct {
	Obs        string    `json:"obs"`
	Findings   []finding `json:"findings"`
	Tags       []string  `json:"tags"`
	Nontrivial bool      `json:"nontrivial"`
}

// ---- line protocol helpers (same conventions as harness/h and harness/engines/style.go)

func atoi(s string) int { n, _ := strconv.Atoi(s); return n }
func atou(s string) uint64 {
	n, _ := strconv.ParseUint(s, 10, 64)
	return n
}
func unhex(s string) []byte {
	if s == "-" || s == "" {
		return nil
	}
	b, _ := hex.DecodeString(s)
	return b
}
func hexs(b []byte) string {
	if len(b) == 0 {
		return "-"
	}
	return hex.EncodeToString(b)
}
func intList(s string) []rune {
	if s == "-" || s == "" {
		return nil
	}
	var out []rune
	for _, t := range strings.Split(s, ",") {
		out = append(out, rune(atoi(t)))
	}
	return out
}
func splitTrim(s, sep string) []string {
	var out []string
	for _, t := range strings.Split(s, sep) {
		t = strings.TrimSpace(t)
		if t != "" {
			out = append(out, t)
		}
	}
	return out
}

type styleF struct {
	Fg, Bg  uint64
	Attrs   uint64
	UlStyle int
	UlColor uint64
	Url     string
	UrlId   string
}

func parseStyleF(s string) styleF {
	p := strings.Split(s, ",")
	if len(p) != 7 {
		return styleF{}
	}
	return styleF{Fg: atou(p[0]), Bg: atou(p[1]), Attrs: atou(p[2]), UlStyle: atoi(p[3]), UlColor: atou(p[4]),
		Url: string(unhex(p[5])), UrlId: string(unhex(p[6]))}
}
func (f styleF) toStyle() tcell.Style {
	st := tcell.StyleDefault.Foreground(tcell.Color(f.Fg)).Background(tcell.Color(f.Bg))
	st = st.Underline(tcell.UnderlineStyle(f.UlStyle), tcell.Color(f.UlColor))
	st = st.Attributes(tcell.AttrMask(f.Attrs))
	if f.Url != "" {
		st = st.Url(f.Url)
	}
	if strings.HasPrefix(f.UrlId, "id=") {
		st = st.UrlId(f.UrlId[3:])
	}
	return st
}
func fromStyle(st tcell.Style) styleF {
	v := reflect.ValueOf(st)
	return styleF{
		Fg: v.FieldByName("fg").Uint(), Bg: v.FieldByName("bg").Uint(), Attrs: v.FieldByName("attrs").Uint(),
		UlStyle: int(v.FieldByName("ulStyle").Int()), UlColor: v.FieldByName("ulColor").Uint(),
		Url: v.FieldByName("url").String(), UrlId: v.FieldByName("urlId").String(),
	}
}

// ---- recorded JS calls

type jsCall struct {
	F string        `json:"f"`
	A []interface{} `json:"a"`
}

func num(v interface{}) int64 {
	switch x := v.(type) {
	case float64:
		return int64(x)
	case bool:
		if x {
			return 1
		}
		return 0
	}
	return -999999
}

func takeCalls() []jsCall {
	s := js.Global().Call("verifTake").String()
	var out []jsCall
	json.Unmarshal([]byte(s), &out)
	return out
}

func cps(v interface{}) []int64 {
	var out []int64
	if l, ok := v.([]interface{}); ok {
		for _, e := range l {
			out = append(out, num(e))
		}
	}
	return out
}

func callToken(c jsCall) string {
	a := c.A
	n := func(i int) int64 {
		if i < len(a) {
			return num(a[i])
		}
		return -999999
	}
	str := func(i int) string {
		if i < len(a) {
			if s, ok := a[i].(string); ok {
				return s
			}
		}
		return "?"
	}
	switch c.F {
	case "drawCell":
		var t []string
		if len(a) > 2 {
			for _, cp := range cps(a[2]) {
				t = append(t, fmt.Sprint(cp))
			}
		}
		return fmt.Sprintf("D:%d,%d,%s,%d,%d,%d,%d,%d", n(0), n(1), strings.Join(t, "+"), n(3), n(4), n(5), n(6), n(7))
	case "clearScreen":
		return fmt.Sprintf("C:%d,%d", n(0), n(1))
	case "show":
		return "S"
	case "resize":
		return fmt.Sprintf("R:%d,%d", n(0), n(1))
	case "showCursor":
		return fmt.Sprintf("K:%d,%d", n(0), n(1))
	case "setCursorStyle":
		return fmt.Sprintf("Y:%s,%s", str(0), str(1))
	case "beep":
		return "B"
	case "setTitle":
		return "T:" + hexs([]byte(str(0)))
	}
	return "?" + c.F
}

// ---- oracle for draw histories (from the property text)

var xterm16 = [16]int64{0x000000, 0xcd0000, 0x00cd00, 0xcdcd00, 0x0000ee, 0xcd00cd, 0x00cdcd, 0xe5e5e5,
	0x7f7f7f, 0xff0000, 0x00ff00, 0xffff00, 0x5c5cff, 0xff00ff, 0x00ffff, 0xffffff}

// colourOK: is `got` an acceptable 24-bit rendering of colour c?  dflt is the page default for "no colour".
func colourOK(c uint64, got int64, dflt int64) bool {
	col := tcell.Color(c)
	switch {
	case col.IsRGB():
		return got == int64(c&0xffffff)
	case col.Valid() && col >= tcell.ColorBlack && col <= tcell.ColorWhite:
		return got == xterm16[int(col-tcell.ColorBlack)]
	case col.Valid():
		hx := int64(col.Hex()) // the library's 24-bit value of a palette / named colour
		if hx < 0 {
			return got == -1 || got == dflt
		}
		return got == hx
	default: // default / reset / none: the page default, either implicit (-1) or spelled out
		return got == -1 || got == dflt
	}
}

type logical struct {
	main  rune
	comb  []rune
	style styleF
	width int
}

func (l logical) same(o logical) bool {
	return l.main == o.main && string(l.comb) == string(o.comb) && len(l.comb) == len(o.comb) && l.style == o.style
}

type pageCell struct {
	drawn   bool
	src     logical // logical content when the cell was last drawn
	touched bool    // written/forced since it was last drawn
	covered bool    // was hidden behind a wide rune at the previous Show
}

type drawOracle struct {
	w, h      int
	page      map[[2]int]*pageCell
	locked    map[[2]int]bool
	scrStyle  styleF
	findings  []finding
	tags      map[string]bool
	nontriv   bool
	forcedAll bool
}

func (o *drawOracle) cell(x, y int) *pageCell {
	k := [2]int{x, y}
	if o.page[k] == nil {
		o.page[k] = &pageCell{}
	}
	return o.page[k]
}

func (o *drawOracle) fail(class, format string, a ...interface{}) {
	if len(o.findings) < 5 {
		o.findings = append(o.findings, finding{class, fmt.Sprintf(format, a...)})
	}
}

func expectedText(l logical) []int64 {
	s := string(l.main) + string(l.comb) // Go's conversion: invalid code points become U+FFFD
	var out []int64
	for _, r := range s {
		out = append(out, int64(r))
	}
	return out
}

func snapshot(s tcell.Screen, w, h int) map[[2]int]logical {
	m := map[[2]int]logical{}
	for y := 0; y < h; y++ {
		for x := 0; x < w; x++ {
			mc, cc, st, wd := s.GetContent(x, y)
			m[[2]int{x, y}] = logical{mc, append([]rune{}, cc...), fromStyle(st), wd}
		}
	}
	return m
}

// afterShow judges the JS calls made by one Show/Sync against the logical contents `log` (read just before it).
func (o *drawOracle) afterShow(calls []jsCall, log map[[2]int]logical, isSync bool, opIdx int) {
	seen := map[[2]int]bool{}
	for _, c := range calls {
		switch c.F {
		case "clearScreen":
			for _, pc := range o.page {
				pc.drawn = false
			}
		case "resize":
			o.page = map[[2]int]*pageCell{}
		case "drawCell":
			o.nontriv = true
			x, y := int(num(c.A[0])), int(num(c.A[1]))
			k := [2]int{x, y}
			l, ok := log[k]
			if !ok {
				o.fail("draw-outside", "op %d: drawCell(%d,%d) outside the %dx%d screen", opIdx, x, y, o.w, o.h)
				continue
			}
			if seen[k] {
				o.fail("touch-clean", "op %d: cell (%d,%d) drawn twice by one Show", opIdx, x, y)
			}
			seen[k] = true
			pc := o.cell(x, y)
			if o.locked[k] {
				o.tags["draw-locked-cell"] = true
			} else if pc.drawn && !pc.touched && !pc.covered && !isSync && !o.forcedAll {
				o.fail("touch-clean", "op %d: drawCell(%d,%d) although the cell was not changed since it was last drawn (%v)", opIdx, x, y, callToken(c))
			}
			// the call must render the logical content
			st := l.style
			if st == (styleF{}) {
				st = o.scrStyle
				o.tags["default-style-cell"] = true
			}
			want := expectedText(l)
			got := cps(c.A[2])
			if fmt.Sprint(want) != fmt.Sprint(got) {
				o.fail("page-text", "op %d: cell (%d,%d) holds %v+%v but drawCell was given text %v", opIdx, x, y, l.main, l.comb, got)
			}
			if !colourOK(st.Fg, num(c.A[3]), 0xe5e5e5) {
				o.fail("page-colour", "op %d: cell (%d,%d) foreground colour %d drawn as %#x", opIdx, x, y, st.Fg, num(c.A[3]))
			}
			if !colourOK(st.Bg, num(c.A[4]), 0x000000) {
				o.fail("page-colour", "op %d: cell (%d,%d) background colour %d drawn as %#x", opIdx, x, y, st.Bg, num(c.A[4]))
			}
			if uint64(num(c.A[5]))&0x7f != st.Attrs&0x7f {
				o.fail("page-attrs", "op %d: cell (%d,%d) attribute bits %#x drawn as %#x", opIdx, x, y, st.Attrs&0x7f, num(c.A[5]))
			}
			if num(c.A[6]) != int64(st.UlStyle) {
				o.fail("page-underline", "op %d: cell (%d,%d) underline style %d drawn as %d", opIdx, x, y, st.UlStyle, num(c.A[6]))
			}
			if st.UlStyle != 0 && !colourOK(st.UlColor, num(c.A[7]), 0x000000) {
				o.fail("page-underline", "op %d: cell (%d,%d) underline colour %d drawn as %#x", opIdx, x, y, st.UlColor, num(c.A[7]))
			}
			if len(l.comb) > 0 {
				o.tags["combining"] = true
			}
			if l.width > 1 {
				o.tags["wide"] = true
			}
			pc.drawn, pc.src, pc.touched, pc.covered = true, l, false, false
		}
	}
	// after the Show every visible, unlocked cell shows its logical content
	for y := 0; y < o.h; y++ {
		for x := 0; x < o.w; {
			k := [2]int{x, y}
			l := log[k]
			pc := o.cell(x, y)
			if !o.locked[k] {
				if !pc.drawn {
					o.fail("page-stale", "op %d: after Show cell (%d,%d) = %v+%v was never drawn on the page", opIdx, x, y, l.main, l.comb)
				} else if !pc.src.same(l) {
					o.fail("page-stale", "op %d: after Show the page still shows %v+%v style %v at (%d,%d) but the cell holds %v+%v style %v",
						opIdx, pc.src.main, pc.src.comb, pc.src.style, x, y, l.main, l.comb, l.style)
				}
			}
			wd := l.width
			if wd < 1 {
				wd = 1
			}
			for i := 1; i < wd && x+i < o.w; i++ {
				o.cell(x+i, y).covered = true
			}
			x += wd
		}
	}
	o.forcedAll = false
}

// ---- running a case under a watchdog

// runner collects the observation tokens of the running case (js/wasm is single threaded and goroutines are not
// preempted, so a plain slice is enough)
type runner struct {
	tokens []string
}

func (r *runner) emit(s string) { r.tokens = append(r.tokens, s) }

func newScreen() tcell.Screen {
	js.Global().Call("verifReset")
	s, err := tcell.NewTerminfoScreen()
	if err != nil {
		panic(err)
	}
	if err := s.Init(); err != nil {
		panic(err)
	}
	takeCalls()
	return s
}

func evStr(ev tcell.Event) string {
	switch e := ev.(type) {
	case *tcell.EventKey:
		return fmt.Sprintf("k:%d:%d:%d", e.Key(), e.Rune(), e.Modifiers())
	case *tcell.EventMouse:
		x, y := e.Position()
		return fmt.Sprintf("m:%d:%d:%d:%d", x, y, e.Buttons(), e.Modifiers())
	case *tcell.EventPaste:
		return fmt.Sprintf("p:%d", b01(e.Start()))
	case *tcell.EventFocus:
		return fmt.Sprintf("f:%d", b01(e.Focused))
	case *tcell.EventResize:
		w, h := e.Size()
		return fmt.Sprintf("r:%d:%d", w, h)
	case nil:
		return "nil"
	}
	return fmt.Sprintf("?%T", ev)
}

func drain(s tcell.Screen) []string {
	var out []string
	for s.HasPendingEvent() {
		ev := s.PollEvent()
		out = append(out, evStr(ev))
		if ev == nil {
			return out
		}
	}
	return out
}

// burst: n key callbacks fired back to back by the page (one JS task: a paste handler typing the text, key auto-repeat)
// while the application is away from PollEvent; a polling goroutine picks the events up as the runtime lets it.  Every
// callback becomes an event: all n come out, in order (C19; more than the event queue holds is the point).
func burst(s tcell.Screen, n int) []string {
	resCh := make(chan []string, 1)
	gate := make(chan struct{})
	// the gate is opened by a goroutine that does nothing but yield: it gets the processor whenever the firing goroutine
	// yields or blocks, so it opens the gate either well after the burst (nothing blocked) or — when a callback waits for
	// room in the queue — as soon as only it can run.  No wall clock (the harness detects deadlock by JS idleness).
	go func() {
		for k := 0; k < 8*n+64; k++ {
			runtime.Gosched()
		}
		close(gate)
	}()
	go func() {
		// the application is busy elsewhere while the callbacks arrive (a poller parked in PollEvent would be scheduled after
		// every single callback and the queue would never fill): it starts polling when the gate opens
		<-gate
		var evs []string
		for {
			ev := s.PollEvent()
			if ev == nil {
				break
			}
			if iv, ok := ev.(*tcell.EventInterrupt); ok {
				if d, ok := iv.Data().(string); ok && d == "burst-end" {
					break
				}
			}
			evs = append(evs, evStr(ev))
		}
		resCh <- evs
	}()
	for i := 0; i < n; i++ {
		fire("onKeyEvent", string(rune('a'+i%26)), false, false, false, false)
	}
	for s.PostEvent(tcell.NewEventInterrupt("burst-end")) != nil {
		runtime.Gosched()
	}
	return <-resCh
}

func b01(b bool) int {
	if b {
		return 1
	}
	return 0
}

func fire(name string, args ...interface{}) bool {
	all := append([]interface{}{name}, args...)
	return js.Global().Call("verifFire", all...).String() == "ok"
}

type caseOut struct {
	findings []finding
	tags     map[string]bool
	nontriv  bool
}

func runDraw(ops []string, r *runner, out *caseOut) {
	s := newScreen()
	o := &drawOracle{w: 80, h: 24, page: map[[2]int]*pageCell{}, locked: map[[2]int]bool{}, tags: out.tags}
	flush := func() []jsCall {
		cs := takeCalls()
		for _, c := range cs {
			r.emit(callToken(c))
		}
		return cs
	}
	touchAll := func() {
		for _, pc := range o.page {
			pc.touched = true
		}
		o.forcedAll = true
	}
	for i, op := range ops {
		f := strings.Fields(op)
		if len(f) == 0 {
			continue
		}
		out.tags[f[0]] = true
		switch {
		case f[0] == "size" && len(f) == 3:
			w, h := atoi(f[1]), atoi(f[2])
			s.SetSize(w, h)
			cs := flush()
			drain(s)
			if w != o.w || h != o.h {
				for _, c := range cs {
					if c.F == "resize" {
						o.page = map[[2]int]*pageCell{}
					}
				}
				o.w, o.h = w, h
				o.locked = map[[2]int]bool{}
				touchAll()
			}
		case f[0] == "sc" && len(f) == 6:
			x, y := atoi(f[1]), atoi(f[2])
			s.SetContent(x, y, rune(atoi(f[3])), intList(f[4]), parseStyleF(f[5]).toStyle())
			o.cell(x, y).touched = true
			o.cell(x+1, y).touched = true // a wide rune that is replaced also repaints the column it covered
			flush()
		case f[0] == "variant" && len(f) == 2: // model variant marker for the Lean driver: nothing to do on the screen
		case f[0] == "fill" && len(f) == 3:
			s.Fill(rune(atoi(f[1])), parseStyleF(f[2]).toStyle())
			touchAll()
			o.forcedAll = false
			flush()
		case f[0] == "clear":
			s.Clear()
			touchAll()
			o.forcedAll = false
			flush()
		case f[0] == "ss" && len(f) == 2:
			st := parseStyleF(f[1])
			s.SetStyle(st.toStyle())
			o.scrStyle = st
			flush()
		case f[0] == "show" || f[0] == "sync":
			w, h := s.Size()
			if w != o.w || h != o.h {
				o.fail("size", "op %d: Size() = %dx%d after SetSize(%d,%d)", i, w, h, o.w, o.h)
				o.w, o.h = w, h
			}
			log := snapshot(s, o.w, o.h)
			if f[0] == "show" {
				s.Show()
			} else {
				s.Sync()
			}
			o.afterShow(flush(), log, f[0] == "sync", i)
		case f[0] == "lock" && len(f) == 6:
			x, y, w, h, on := atoi(f[1]), atoi(f[2]), atoi(f[3]), atoi(f[4]), f[5] == "1"
			// a wide rune just left of the region, in a row whose first cell is really unlocked by this call: what such a rune
			// may display depends on the lock of its right half (LockRegion is backend-agnostic), so it may be drawn again.
			// An "unlock" of cells that were not locked changes nothing outside the region.
			if !on && w > 0 {
				for j := y; j < y+h; j++ {
					if o.locked[[2]int{x, j}] && x-1 >= 0 && x-1 < o.w && j >= 0 && j < o.h {
						if _, _, _, wd := s.GetContent(x-1, j); wd > 1 {
							o.cell(x-1, j).touched = true
							o.tags["unlock-right-of-wide"] = true
						}
					}
				}
			}
			s.LockRegion(x, y, w, h, on)
			for j := y; j < y+h; j++ {
				for k := x; k < x+w; k++ {
					if k >= 0 && j >= 0 && k < o.w && j < o.h {
						if on {
							o.locked[[2]int{k, j}] = true
						} else {
							delete(o.locked, [2]int{k, j})
							o.cell(k, j).touched = true
						}
					}
				}
			}
			flush()
		case f[0] == "cur" && len(f) == 3:
			s.ShowCursor(atoi(f[1]), atoi(f[2]))
			flush()
		case f[0] == "hide":
			s.HideCursor()
			flush()
		case f[0] == "cs" && len(f) == 3:
			if f[2] == "-" {
				s.SetCursorStyle(tcell.CursorStyle(atoi(f[1])))
			} else {
				s.SetCursorStyle(tcell.CursorStyle(atoi(f[1])), tcell.Color(atou(f[2])))
			}
			flush()
		case f[0] == "beep":
			s.Beep()
			flush()
		case f[0] == "title" && len(f) == 2:
			s.SetTitle(string(unhex(f[1])))
			flush()
		default:
			r.emit("bad-op")
		}
	}
	w, h := s.Size()
	r.emit(fmt.Sprintf("| %d %d", w, h))
	out.findings = append(out.findings, o.findings...)
	out.nontriv = o.nontriv
}

// ---- events

var keyByName = func() map[string]tcell.Key {
	m := map[string]tcell.Key{}
	for k, n := range tcell.KeyNames {
		m[n] = k
	}
	return m
}()

// expectedKey: the key an independent reader expects for a KeyboardEvent.key name of the table, through key.go's
// KeyNames (a different table) and the DOM spelling of a few names.
func expectedKey(name string) (tcell.Key, bool) {
	switch name {
	case "ArrowUp", "ArrowDown", "ArrowLeft", "ArrowRight":
		name = name[5:]
	case "Escape":
		name = "Esc"
	case "Ctrl- ":
		name = "Ctrl-Space"
	}
	if strings.HasPrefix(name, "Ctrl-") && len(name) == 6 {
		name = "Ctrl-" + strings.ToUpper(name[5:])
	}
	k, ok := keyByName[name]
	return k, ok
}

func runEv(ops []string, r *runner, out *caseOut, tableNames map[string]bool) {
	s := newScreen()
	var flags int
	var paste, focus, suspended bool
	fail := func(class, format string, a ...interface{}) {
		if len(out.findings) < 5 {
			out.findings = append(out.findings, finding{class, fmt.Sprintf(format, a...)})
		}
	}
	for i, op := range ops {
		f := strings.Fields(op)
		if len(f) == 0 {
			continue
		}
		out.tags[f[0]] = true
		switch {
		case f[0] == "em" && len(f) == 2:
			if f[1] == "-" {
				s.EnableMouse()
				flags = 7
			} else {
				s.EnableMouse(tcell.MouseFlags(atoi(f[1])))
				flags = atoi(f[1])
			}
		case f[0] == "dm":
			s.DisableMouse()
			flags = 0
		case f[0] == "ep":
			s.EnablePaste()
			paste = true
		case f[0] == "dp":
			s.DisablePaste()
			paste = false
		case f[0] == "ef":
			s.EnableFocus()
			focus = true
		case f[0] == "df":
			s.DisableFocus()
			focus = false
		case f[0] == "suspend":
			if s.Suspend() == nil {
				r.emit("ok")
			} else {
				r.emit("err")
			}
			suspended = true
		case f[0] == "resume":
			if s.Resume() == nil {
				r.emit("ok")
			} else {
				r.emit("err")
			}
			suspended = false
		case f[0] == "burst" && len(f) == 2:
			n := atoi(f[1])
			evs := burst(s, n)
			r.emit("[" + strings.Join(evs, ",") + "]")
			out.nontriv = true
			out.tags["burst"] = true
			if !suspended {
				ok := len(evs) == n
				for k := 0; ok && k < n; k++ {
					ok = evs[k] == fmt.Sprintf("k:%d:%d:0", tcell.KeyRune, 'a'+k%26)
				}
				if !ok {
					fail("callback-event-lost", "op %d: %d key callbacks fired back to back (the event queue holds 10) gave %d events %v: every callback becomes an event, in order", i, n, len(evs), evs)
				}
			}
		case f[0] == "key" && len(f) == 6:
			name := string(unhex(f[1]))
			sh, al, ct, me := f[2] == "1", f[3] == "1", f[4] == "1", f[5] == "1"
			def := fire("onKeyEvent", name, sh, al, ct, me)
			evs := drain(s)
			if !def {
				evs = []string{"undef"}
			}
			r.emit("[" + strings.Join(evs, ",") + "]")
			out.nontriv = true
			mods := b01(sh)*int(tcell.ModShift) | b01(al)*int(tcell.ModAlt) | b01(ct)*int(tcell.ModCtrl) | b01(me)*int(tcell.ModMeta)
			if suspended {
				out.tags["key-while-suspended"] = true
				break
			}
			rs := []rune(name)
			switch {
			case name == "Control" || name == "Alt" || name == "Meta" || name == "Shift":
				out.tags["key-modifier-name"] = true
			case tableNames[name]:
				k, ok := expectedKey(name)
				if !ok {
					out.tags["key-unjudged"] = true
					break
				}
				out.tags["key-table"] = true
				want := fmt.Sprintf("k:%d:0:%d", k, mods)
				if len(evs) != 1 || evs[0] != want {
					fail("key-wrong", "op %d: key %q with modifiers %d gave %v, expected [%s] (Key %q)", i, name, mods, evs, want, tcell.KeyNames[k])
				}
			case len(rs) == 1 && rs[0] >= 0x20 && rs[0] != 0x7f && rs[0] != 0xfffd:
				out.tags["key-rune"] = true
				want := fmt.Sprintf("k:%d:%d:%d", tcell.KeyRune, rs[0], mods)
				ok := len(evs) == 1 && evs[0] == want
				if !ok && mods == int(tcell.ModCtrl) && len(evs) == 1 {
					// Ctrl+letter may be reported as the control key itself
					if k, found := expectedKey("Ctrl-" + strings.ToLower(name)); found && evs[0] == fmt.Sprintf("k:%d:0:%d", k, mods) {
						ok = true
						out.tags["key-ctrl-letter"] = true
					}
				}
				if !ok {
					fail("key-wrong", "op %d: key %q with modifiers %d gave %v, expected [%s]", i, name, mods, evs, want)
				}
			default:
				out.tags["key-unjudged"] = true
			}
		case (f[0] == "click" || f[0] == "move") && len(f) == 7:
			x, y, b := atoi(f[1]), atoi(f[2]), atoi(f[3])
			sh, al, ct := f[4] == "1", f[5] == "1", f[6] == "1"
			fn := "onMouseClick"
			if f[0] == "move" {
				fn = "onMouseMove"
			}
			def := fire(fn, x, y, b, sh, al, ct)
			evs := drain(s)
			if !def {
				evs = []string{"undef"}
			}
			r.emit("[" + strings.Join(evs, ",") + "]")
			out.nontriv = true
			if suspended || b < 0 || b > 3 || (f[0] == "click" && b == 0) {
				out.tags["mouse-unjudged"] = true
				break
			}
			// which kind of report is this, and is it enabled?  (screen.go: drag includes button, motion includes both)
			var covered, exact bool
			switch {
			case f[0] == "click":
				covered, exact = flags&7 != 0, flags&1 != 0
			case b == 0:
				covered, exact = flags&4 != 0, flags&4 != 0
			default:
				covered, exact = flags&6 != 0, flags&6 != 0
			}
			delivered := len(evs) > 0
			if delivered && !covered {
				fail("mouse-not-enabled", "op %d: %s button code %d delivered %v although the enabled mouse flags are %d", i, f[0], b, evs, flags)
			}
			if !delivered && exact {
				fail("mouse-dropped", "op %d: %s button code %d produced no event although the enabled mouse flags are %d", i, f[0], b, flags)
			}
			if delivered {
				btn := map[int]tcell.ButtonMask{0: tcell.ButtonNone, 1: tcell.ButtonPrimary, 2: tcell.ButtonMiddle, 3: tcell.ButtonSecondary}[b]
				mods := b01(sh)*int(tcell.ModShift) | b01(al)*int(tcell.ModAlt) | b01(ct)*int(tcell.ModCtrl)
				want := fmt.Sprintf("m:%d:%d:%d:%d", x, y, btn, mods)
				if len(evs) != 1 || evs[0] != want {
					fail("mouse-wrong", "op %d: %s(%d,%d) button code %d modifiers %d gave %v, expected [%s]", i, f[0], x, y, b, mods, evs, want)
				}
				out.tags["mouse-delivered"] = true
			} else {
				out.tags["mouse-refused"] = true
			}
		case f[0] == "paste" && len(f) == 2:
			def := fire("onPaste", f[1] == "1")
			evs := drain(s)
			if !def {
				evs = []string{"undef"}
			}
			r.emit("[" + strings.Join(evs, ",") + "]")
			out.nontriv = true
			if suspended {
				break
			}
			if paste {
				if want := "p:" + f[1]; len(evs) != 1 || evs[0] != want {
					fail("paste-wrong", "op %d: paste callback (%s) with paste enabled gave %v", i, f[1], evs)
				}
			} else if def && len(evs) > 0 {
				fail("paste-not-enabled", "op %d: paste callback delivered %v although paste is not enabled", i, evs)
			}
		case f[0] == "focus" && len(f) == 2:
			def := fire("onFocus", f[1] == "1")
			evs := drain(s)
			if !def {
				evs = []string{"undef"}
			}
			r.emit("[" + strings.Join(evs, ",") + "]")
			out.nontriv = true
			if focus {
				if want := "f:" + f[1]; len(evs) != 1 || evs[0] != want {
					fail("focus-wrong", "op %d: focus callback (%s) with focus enabled gave %v", i, f[1], evs)
				}
			} else if def && len(evs) > 0 {
				fail("focus-not-enabled", "op %d: focus callback delivered %v although focus reporting is not enabled", i, evs)
			}
		default:
			r.emit("bad-op")
		}
	}
}

func runLife(ops []string, r *runner, out *caseOut) {
	s := newScreen()
	out.nontriv = true
	for _, op := range ops {
		f := strings.Fields(op)
		if len(f) == 0 {
			continue
		}
		r.emit("@" + op) // progress marker: names the call that is about to run
		switch {
		case f[0] == "suspend":
			if s.Suspend() == nil {
				r.emit("ok")
			} else {
				r.emit("err")
			}
		case f[0] == "resume":
			if s.Resume() == nil {
				r.emit("ok")
			} else {
				r.emit("err")
			}
		case f[0] == "size" && len(f) == 3:
			s.SetSize(atoi(f[1]), atoi(f[2]))
			r.emit("ok")
		case f[0] == "fini":
			s.Fini()
			r.emit("ok")
		default:
			r.emit("bad-op")
		}
	}
	r.emit("@probe")
	s.Size() // takes and releases the mutex
	r.emit("| free")
}

func runCase(line string, tableNames map[string]bool) result {
	res := result{Findings: []finding{}, Tags: []string{}}
	f := strings.SplitN(strings.TrimSpace(line), " ", 3)
	if len(f) < 2 || f[0] != "wasm" {
		res.Obs = "bad-line"
		return res
	}
	rest := ""
	if len(f) == 3 {
		rest = f[2]
	}
	ops := splitTrim(rest, ";")
	r := &runner{}
	out := &caseOut{tags: map[string]bool{}}
	done := make(chan string, 1)
	go func() {
		defer func() {
			if p := recover(); p != nil {
				done <- fmt.Sprintf("PANIC %v", p)
				return
			}
			done <- ""
		}()
		switch f[1] {
		case "draw":
			runDraw(ops, r, out)
		case "ev":
			runEv(ops, r, out, tableNames)
		case "life":
			runLife(ops, r, out)
		default:
			r.emit("bad-kind")
		}
	}()
	// Deadlock detector without wall-clock time: run.js arms a zero-delay JS timeout whose callback (verifIdle) can
	// only run when the outermost call into the Go program has returned to the JS event loop, i.e. when every
	// goroutine is blocked (js/wasm is single threaded; callbacks fired synchronously by verifFire do not turn the
	// event loop).  If the case completes, the timeout is disarmed first.
	var toks []string
	pending := ""
	collect := func() {
		for _, t := range r.tokens {
			if strings.HasPrefix(t, "@") {
				pending = t[1:]
			} else {
				toks = append(toks, t)
			}
		}
	}
	caseSeq++
	js.Global().Call("verifArm", caseSeq)
	var p string
	finished := false
	for !finished {
		select {
		case p = <-done:
			finished = true
		case id := <-idleCh:
			if id != caseSeq {
				continue // stale notification of an earlier case
			}
			select {
			case p = <-done:
				finished = true
			default:
			}
			if !finished {
				p = "\x00blocked"
				finished = true
			}
		}
	}
	js.Global().Call("verifDisarm")
	switch {
	case p != "\x00blocked":
		collect()
		if p != "" {
			toks = append(toks, "PANIC")
			res.Findings = append(res.Findings, finding{"panic", p})
		}
	default:
		collect()
		if pending == "probe" {
			toks = append(toks, "| held")
			out.tags["mutex-held-at-end"] = true
		} else {
			toks = append(toks, "dead")
			what := pending
			if what == "" {
				what = "an operation of the case"
			}
			res.Findings = append(res.Findings, finding{"lifecycle-deadlock",
				fmt.Sprintf("%s never returns: every goroutine is blocked (after %d completed steps of `%s`)", what, len(toks)-1, rest)})
		}
	}
	res.Obs = strings.Join(toks, " ")
	if res.Obs == "" {
		res.Obs = "-"
	}
	res.Findings = append(res.Findings, out.findings...)
	for t := range out.tags {
		res.Tags = append(res.Tags, f[1]+":"+t)
	}
	res.Tags = append(res.Tags, "kind:"+f[1])
	res.Nontrivial = out.nontriv
	return res
}

var (
	caseSeq int
	idleCh  = make(chan int, 16)
)

func main() {
	js.Global().Set("verifIdle", js.FuncOf(func(this js.Value, args []js.Value) interface{} {
		select {
		case idleCh <- args[0].Int():
		default:
		}
		return nil
	}))
	if len(os.Args) < 2 {
		fmt.Println("usage: harness.wasm CASES [WEBKEYS]")
		os.Exit(2)
	}
	data, err := os.ReadFile(os.Args[1])
	if err != nil {
		fmt.Println("cannot read", os.Args[1], err)
		os.Exit(2)
	}
	tableNames := map[string]bool{}
	if len(os.Args) > 2 {
		if wk, err := os.ReadFile(os.Args[2]); err == nil {
			for _, l := range strings.Split(string(wk), "\n") {
				p := strings.Fields(l)
				if len(p) == 3 && p[0] == "key" {
					tableNames[string(unhex(p[1]))] = true
				}
			}
		}
	}
	var sb strings.Builder
	for _, l := range strings.Split(string(data), "\n") {
		if strings.TrimSpace(l) == "" {
			continue
		}
		b, _ := json.Marshal(runCase(l, tableNames))
		sb.Write(b)
		sb.WriteByte('\n')
		if sb.Len() > 1<<16 {
			os.Stdout.WriteString(sb.String())
			sb.Reset()
		}
	}
	os.Stdout.WriteString(sb.String())
}
