package main

// lockfacts.go — translator for property C10 (lockset discipline).
//
// It parses $repo/tscreen.go (+ tscreen_unix.go for initialize), screen.go and simulation.go with go/ast and,
// for every public Screen entry point of the two implementations (tScreen and simscreen, both reached through
// the baseScreen wrappers of screen.go) and for the library's own goroutines (mainLoop, inputLoop, the resize
// callback), walks the body in program order tracking `x.Lock()/x.Unlock()/defer x.Unlock()` of EVERY mutex of the
// receiver — the embedded `sync.Mutex` (the screen lock) and every named field of type sync.Mutex / sync.RWMutex
// (`x.lifecycle.Lock()`; RLock is not tracked: a read lock excludes nobody) —, inlining calls to methods of the same
// receiver (memo-free, bounded depth, recursion-guarded), and emits one fact per field access:
//
//	(impl, entry point, field, read|write, SET of mutexes held, phase, noloops)
//
// Mutexes are numbered globally (`mutex` lines of gen/lockfacts.txt, `mutexNames` in the Lean file); id 0 is the
// embedded mutex of tScreen.  `held` (the screen lock of the fact's own implementation is in the set) is derived.
//
// phase  = init  for the constructor and for Init up to (not including) the call of engage — no other
//	        goroutine can hold a reference yet (API contract: Init returns before the Screen is shared);
//	        conc  otherwise.
// noloops = the access happens after `t.wg.Wait()` in the same entry (mainLoop/inputLoop have exited).
//
// Pseudo-fields: `tty.out` (any call that hands t.tty to a writer: t.tty.Write, io.WriteString(t.tty,…),
// ti.TPuts(t.tty,…), t.buf.WriteTo(t.tty)), `encoder.state` / `decoder.state` (Reset/Transform on the shared
// transformer, also through a local alias `enc := t.encoder`), `ti.eval` (a call of TParm / TGoto / TColor / TPuts on the
// shared *terminfo.Terminfo `t.ti`: the evaluator's scratch space and variables are per entry or per process, not per call
// site, so every such call must be made under the screen lock).
//
// Outputs: lean/Tcell/Gen/LockFacts.lean (facts as numerals, re-checked by the kernel), gen/lockfacts.txt
// (the same facts, the classification and the flagged list for the race harness).
import (
	"fmt"
	"go/ast"
	"go/parser"
	"go/token"
	"os"
	"path/filepath"
	"sort"
	"strings"
)

type lfFact struct {
	impl, entry, field string
	wr, held           bool // held: derived — the embedded (screen) mutex of the implementation is in `locks`
	locks              uint // set of mutexes held, bit = global mutex id
	conc               bool // concurrent phase
	noloops            bool
	line               int
	lines              []int // every source line at which this fact was seen (for the race-report canonicaliser)
}

type lfImpl struct {
	name    string // tscreen | sim
	typ     string // tScreen | simscreen
	fields  []string
	ftype   map[string]string
	methods map[string]*ast.FuncDecl
	extra   []string // public methods outside the Screen interface that are entry points too
	cells   string   // field GetCells returns the address of
	mutexes []string // mutex fields of the struct: the embedded "Mutex" first, then named sync.Mutex fields
	mbit    map[string]uint
}

// global numbering of the mutexes ("tscreen/Mutex", "tscreen/lifecycle", "sim/Mutex" …)
var lfMutexNames []string

func lfIsMutexType(t string) bool { return t == "sync.Mutex" || t == "sync.RWMutex" }

func (im *lfImpl) embeddedBit() uint { return im.mbit["Mutex"] }

func lfLockNames(mask uint) []string {
	var out []string
	for i, n := range lfMutexNames {
		if mask&(1<<uint(i)) != 0 {
			out = append(out, n[strings.Index(n, "/")+1:])
		}
	}
	return out
}

func lfLockIds(mask uint) string {
	var out []string
	for i := range lfMutexNames {
		if mask&(1<<uint(i)) != 0 {
			out = append(out, fmt.Sprint(i))
		}
	}
	return "[" + strings.Join(out, ", ") + "]"
}

var lfFset = token.NewFileSet()
var lfBase = map[string]*ast.FuncDecl{}
var lfScreenIface, lfImplIface []string
var lfWarnings []string

// method tables: which methods of a field's type mutate it (everything else is a read of the field)
var lfMutating = map[string]bool{
	// CellBuffer
	"Resize": true, "Invalidate": true, "SetDirty": true, "SetContent": true, "Fill": true, "LockCell": true, "UnlockCell": true,
	// bytes.Buffer
	"Reset": true, "Write": true, "WriteString": true, "WriteTo": true, "WriteByte": true, "WriteRune": true, "Truncate": true, "ReadFrom": true,
}

// evaluator methods of *terminfo.Terminfo (parameter expansion, cursor addressing, colour selection, padding output)
var lfTiEval = map[string]bool{"TParm": true, "TGoto": true, "TColor": true, "TPuts": true}

func lfTypeString(e ast.Expr) string {
	switch v := e.(type) {
	case *ast.Ident:
		return v.Name
	case *ast.SelectorExpr:
		return lfTypeString(v.X) + "." + v.Sel.Name
	case *ast.StarExpr:
		return "*" + lfTypeString(v.X)
	case *ast.ArrayType:
		return "[]" + lfTypeString(v.Elt)
	case *ast.MapType:
		return "map[" + lfTypeString(v.Key) + "]" + lfTypeString(v.Value)
	case *ast.ChanType:
		return "chan " + lfTypeString(v.Value)
	case *ast.StructType:
		return "struct{}"
	case *ast.FuncType:
		return "func"
	case *ast.InterfaceType:
		return "interface"
	}
	return "?"
}

func lfRecv(fd *ast.FuncDecl) (typ, name string) {
	if fd.Recv == nil || len(fd.Recv.List) == 0 {
		return "", ""
	}
	t := fd.Recv.List[0].Type
	if s, ok := t.(*ast.StarExpr); ok {
		t = s.X
	}
	id, ok := t.(*ast.Ident)
	if !ok {
		return "", ""
	}
	if len(fd.Recv.List[0].Names) > 0 {
		name = fd.Recv.List[0].Names[0].Name
	}
	return id.Name, name
}

// ---- the walker -------------------------------------------------------------------------------------------

type lfWalker struct {
	impl    *lfImpl
	entry   string
	conc    bool
	noloops bool
	facts   map[string]lfFact
	order   []string
	stack   []string
	entries map[string]*ast.FuncLit // func literals registered as separate entry points (resize callback)
	switchAtEngage bool
}

type lfFrame struct {
	recv     string            // receiver identifier in this body
	base     bool              // body of a baseScreen method
	alias    map[string]string // local identifier -> field it was loaded from
	held     uint              // set of mutexes held
	deferUnl uint              // mutexes released by `defer x.Unlock()` when the body returns
	deferred []*ast.FuncLit
}

func (w *lfWalker) emit(field string, wr bool, locks uint, pos token.Pos) {
	f := lfFact{impl: w.impl.name, entry: w.entry, field: field, wr: wr, locks: locks, held: locks&w.impl.embeddedBit() != 0, conc: w.conc, noloops: w.noloops, line: lfFset.Position(pos).Line}
	k := fmt.Sprintf("%s|%v|%v|%v|%v", field, wr, locks, w.conc, w.noloops)
	if old, ok := w.facts[k]; !ok {
		f.lines = []int{f.line}
		w.facts[k] = f
		w.order = append(w.order, k)
	} else {
		seen := false
		for _, l := range old.lines {
			if l == f.line {
				seen = true
			}
		}
		if !seen {
			old.lines = append(old.lines, f.line)
			w.facts[k] = old
		}
	}
}

func (w *lfWalker) isField(n string) bool { _, ok := w.impl.ftype[n]; return ok }

// rootField returns the struct field an lvalue/receiver expression is rooted at (t.f, t.f[i], t.f.x, alias.x …)
func (w *lfWalker) rootField(fr *lfFrame, e ast.Expr) (string, bool) {
	switch v := e.(type) {
	case *ast.SelectorExpr:
		if id, ok := v.X.(*ast.Ident); ok && id.Name == fr.recv && !fr.base {
			if w.isField(v.Sel.Name) {
				return v.Sel.Name, true
			}
			return "", false
		}
		return w.rootField(fr, v.X)
	case *ast.IndexExpr:
		return w.rootField(fr, v.X)
	case *ast.StarExpr:
		return w.rootField(fr, v.X)
	case *ast.ParenExpr:
		return w.rootField(fr, v.X)
	case *ast.Ident:
		if f, ok := fr.alias[v.Name]; ok {
			return f, true
		}
	}
	return "", false
}

func (w *lfWalker) inline(fr *lfFrame, fd *ast.FuncDecl, base bool, pos token.Pos) {
	name := fd.Name.Name
	if base {
		name = "base." + name
	}
	for _, s := range w.stack {
		if s == name {
			return // recursion guard
		}
	}
	if len(w.stack) > 12 {
		lfWarnings = append(lfWarnings, fmt.Sprintf("%s/%s: inlining depth exceeded at %s", w.impl.name, w.entry, name))
		return
	}
	if w.switchAtEngage && fd.Name.Name == "engage" && !base {
		w.conc = true // Init: from engage on the goroutines may exist
	}
	_, rn := lfRecv(fd)
	nf := &lfFrame{recv: rn, base: base, alias: map[string]string{}, held: fr.held}
	w.stack = append(w.stack, name)
	w.block(nf, fd.Body.List)
	w.finish(nf)
	w.stack = w.stack[:len(w.stack)-1]
	fr.held = nf.held
}

func (w *lfWalker) finish(fr *lfFrame) {
	for i := len(fr.deferred) - 1; i >= 0; i-- {
		w.block(fr, fr.deferred[i].Body.List)
	}
	fr.deferred = nil
	if fr.deferUnl != 0 {
		fr.held &^= fr.deferUnl
		fr.deferUnl = 0
	}
}

// mutexOf: `recv` (the embedded mutex; baseScreen reaches the same one through screenImpl) or `recv.<mutex field>`
func (w *lfWalker) mutexOf(fr *lfFrame, x ast.Expr) (uint, bool) {
	switch v := x.(type) {
	case *ast.Ident:
		if v.Name == fr.recv && fr.recv != "" {
			if b, ok := w.impl.mbit["Mutex"]; ok {
				return b, true
			}
		}
	case *ast.SelectorExpr:
		if id, ok := v.X.(*ast.Ident); ok && id.Name == fr.recv && fr.recv != "" && !fr.base {
			if b, ok := w.impl.mbit[v.Sel.Name]; ok {
				return b, true
			}
		}
	}
	return 0, false
}

func (w *lfWalker) lockOp(fr *lfFrame, bit uint, m string, pos token.Pos) {
	name := strings.Join(lfLockNames(bit), "")
	switch m {
	case "Lock":
		if fr.held&bit != 0 {
			lfWarnings = append(lfWarnings, fmt.Sprintf("%s/%s: Lock of %s while held at line %d", w.impl.name, w.entry, name, lfFset.Position(pos).Line))
		}
		fr.held |= bit
	case "Unlock":
		if fr.held&bit == 0 {
			lfWarnings = append(lfWarnings, fmt.Sprintf("%s/%s: Unlock of %s while not held at line %d", w.impl.name, w.entry, name, lfFset.Position(pos).Line))
		}
		fr.held &^= bit
	}
}

// call handles a call expression; returns true if it consumed it
func (w *lfWalker) call(fr *lfFrame, c *ast.CallExpr) {
	// builtin forms
	if id, ok := c.Fun.(*ast.Ident); ok {
		switch id.Name {
		case "delete":
			if len(c.Args) > 0 {
				if f, ok := w.rootField(fr, c.Args[0]); ok {
					w.emit(f, true, fr.held, c.Pos())
				}
				for _, a := range c.Args[1:] {
					w.expr(fr, a)
				}
			}
			return
		}
		for _, a := range c.Args {
			w.expr(fr, a)
		}
		return
	}
	sel, ok := c.Fun.(*ast.SelectorExpr)
	if !ok {
		if fl, ok := c.Fun.(*ast.FuncLit); ok {
			for _, a := range c.Args {
				w.expr(fr, a)
			}
			w.block(fr, fl.Body.List)
			return
		}
		w.expr(fr, c.Fun)
		for _, a := range c.Args {
			w.expr(fr, a)
		}
		return
	}
	m := sel.Sel.Name
	// arguments are evaluated first
	args := func() {
		for _, a := range c.Args {
			w.arg(fr, a)
		}
	}
	if m == "Lock" || m == "Unlock" {
		if bit, ok := w.mutexOf(fr, sel.X); ok {
			w.lockOp(fr, bit, m, c.Pos())
			return
		}
	}
	if id, ok := sel.X.(*ast.Ident); ok && id.Name == fr.recv {
		// method of the receiver
		if m == "Lock" || m == "Unlock" {
			lfWarnings = append(lfWarnings, fmt.Sprintf("%s/%s: %s on a receiver without an embedded mutex at line %d", w.impl.name, w.entry, m, lfFset.Position(c.Pos()).Line))
			return
		}
		args()
		if fr.base {
			if fd, ok := lfBase[m]; ok {
				w.inline(fr, fd, true, c.Pos())
				return
			}
		}
		if fd, ok := w.impl.methods[m]; ok {
			w.inline(fr, fd, false, c.Pos())
			return
		}
		if w.isField(m) && !fr.base { // call of a func-typed field
			w.emit(m, false, fr.held, c.Pos())
			return
		}
		lfWarnings = append(lfWarnings, fmt.Sprintf("%s/%s: unresolved receiver method %s", w.impl.name, w.entry, m))
		return
	}
	// method call on a field (or alias of a field) of the receiver
	if f, ok := w.rootField(fr, sel.X); ok {
		args()
		w.expr(fr, sel.X) // the read of the field itself (and index expressions)
		w.fieldMethod(fr, f, m, c)
		return
	}
	w.expr(fr, sel.X)
	args()
}

func (w *lfWalker) fieldMethod(fr *lfFrame, f, m string, c *ast.CallExpr) {
	switch f {
	case "tty":
		if m == "Write" {
			w.emit("tty.out", true, fr.held, c.Pos())
		}
		if m == "NotifyResize" && len(c.Args) == 1 {
			if fl, ok := c.Args[0].(*ast.FuncLit); ok {
				w.entries["resizeCb"] = fl
			}
		}
		return
	case "encoder", "decoder":
		if m == "Reset" || m == "Transform" {
			w.emit(f+".state", true, fr.held, c.Pos())
		}
		return
	case "ti":
		// the terminal description is ONE object shared by the whole screen (and, through LookupTerminfo's copies, possibly
		// with other users of the entry): whatever its evaluator methods keep between calls or use as scratch space is
		// reached by every caller.  A call of an evaluator method is a write of the pseudo-field ti.eval, so the discipline
		// demands that all of them are made under one mutex (the screen lock).  Reads of capability strings (t.ti.Bell …)
		// are reads of the field ti as before.
		if lfTiEval[m] {
			w.emit("ti.eval", true, fr.held, c.Pos())
		}
		w.emit(f, false, fr.held, c.Pos())
		return
	case "wg":
		// WaitGroup contract: an Add that starts from zero must happen before Wait — the race detector checks it; Add is a
		// write and Wait a read of the pseudo-field wg.state (Done is pure synchronisation)
		if m == "Add" {
			w.emit("wg.state", true, fr.held, c.Pos())
		}
		if m == "Wait" {
			w.noloops = true
			w.emit("wg.state", false, fr.held, c.Pos())
		}
		return
	}
	ft := w.impl.ftype[f]
	if (ft == "CellBuffer" || ft == "bytes.Buffer") && lfMutating[m] {
		w.emit(f, true, fr.held, c.Pos())
	} else {
		w.emit(f, false, fr.held, c.Pos())
	}
}

// arg walks a call argument: handing `t.tty` to a callee is a write of the output stream, `&t.f` a write of f,
// a method value `t.m` is called by the callee (sync.Once.Do(t.finish)).
func (w *lfWalker) arg(fr *lfFrame, a ast.Expr) {
	if u, ok := a.(*ast.UnaryExpr); ok && u.Op == token.AND {
		if f, ok := w.rootField(fr, u.X); ok {
			w.emit(f, true, fr.held, a.Pos())
			return
		}
	}
	if f, ok := w.rootField(fr, a); ok && f == "tty" {
		if _, isSel := a.(*ast.SelectorExpr); isSel {
			w.emit("tty", false, fr.held, a.Pos())
			w.emit("tty.out", true, fr.held, a.Pos())
			return
		}
	}
	if fl, ok := a.(*ast.FuncLit); ok {
		// a callback: its body runs later on another goroutine — registered separately by fieldMethod when it
		// is the resize callback; otherwise walked inline (conservative)
		_ = fl
		return
	}
	w.expr(fr, a)
}

// expr walks an expression evaluated for its value (reads)
func (w *lfWalker) expr(fr *lfFrame, e ast.Expr) {
	switch v := e.(type) {
	case nil:
	case *ast.SelectorExpr:
		if id, ok := v.X.(*ast.Ident); ok && id.Name == fr.recv {
			if !fr.base && w.isField(v.Sel.Name) {
				w.emit(v.Sel.Name, false, fr.held, v.Pos())
				return
			}
			// method value: will be called (finiOnce.Do(t.finish))
			if fd, ok := w.impl.methods[v.Sel.Name]; ok && !fr.base {
				w.inline(fr, fd, false, v.Pos())
			}
			return
		}
		w.expr(fr, v.X)
	case *ast.CallExpr:
		w.call(fr, v)
	case *ast.IndexExpr:
		w.expr(fr, v.X)
		w.expr(fr, v.Index)
	case *ast.SliceExpr:
		w.expr(fr, v.X)
		w.expr(fr, v.Low)
		w.expr(fr, v.High)
		w.expr(fr, v.Max)
	case *ast.StarExpr:
		w.expr(fr, v.X)
	case *ast.ParenExpr:
		w.expr(fr, v.X)
	case *ast.UnaryExpr:
		if v.Op == token.AND {
			if _, isSel := v.X.(*ast.SelectorExpr); isSel {
				if _, ok := w.rootField(fr, v.X); ok {
					// address of the field itself taken and returned/stored (GetCells): no access here, the users of
					// the pointer are tracked through the alias in baseScreen.  (&t.f[i] on the other hand reads the
					// slice header of f and the index expression: it falls through to the ordinary walk.)
					return
				}
			}
		}
		w.expr(fr, v.X)
	case *ast.BinaryExpr:
		w.expr(fr, v.X)
		w.expr(fr, v.Y)
	case *ast.KeyValueExpr:
		w.expr(fr, v.Value)
	case *ast.CompositeLit:
		for _, el := range v.Elts {
			w.expr(fr, el)
		}
	case *ast.TypeAssertExpr:
		w.expr(fr, v.X)
	case *ast.FuncLit:
		w.block(fr, v.Body.List)
	}
}

func (w *lfWalker) assign(fr *lfFrame, s *ast.AssignStmt) {
	for _, r := range s.Rhs {
		w.expr(fr, r)
	}
	for i, l := range s.Lhs {
		if id, ok := l.(*ast.Ident); ok {
			// alias tracking: x := t.f  /  x := b.GetCells()
			delete(fr.alias, id.Name)
			if len(s.Lhs) == len(s.Rhs) {
				if f, ok := w.aliasOf(fr, s.Rhs[i]); ok {
					fr.alias[id.Name] = f
				}
			}
			continue
		}
		if f, ok := w.rootField(fr, l); ok {
			w.emit(f, true, fr.held, l.Pos())
			if s.Tok != token.ASSIGN && s.Tok != token.DEFINE {
				w.emit(f, false, fr.held, l.Pos())
			}
			// index expressions inside the lvalue are reads
			w.lvalueReads(fr, l)
			continue
		}
		w.lvalueReads(fr, l)
	}
}

func (w *lfWalker) lvalueReads(fr *lfFrame, l ast.Expr) {
	switch v := l.(type) {
	case *ast.IndexExpr:
		w.expr(fr, v.Index)
		w.lvalueReads(fr, v.X)
	case *ast.SelectorExpr:
		if _, ok := v.X.(*ast.Ident); !ok {
			w.lvalueReads(fr, v.X)
		}
	case *ast.StarExpr:
		w.expr(fr, v.X)
	}
}

func (w *lfWalker) aliasOf(fr *lfFrame, r ast.Expr) (string, bool) {
	switch v := r.(type) {
	case *ast.SelectorExpr:
		if id, ok := v.X.(*ast.Ident); ok && id.Name == fr.recv && !fr.base && w.isField(v.Sel.Name) {
			return v.Sel.Name, true
		}
	case *ast.CallExpr:
		if sel, ok := v.Fun.(*ast.SelectorExpr); ok {
			if id, ok := sel.X.(*ast.Ident); ok && id.Name == fr.recv && sel.Sel.Name == "GetCells" && w.impl.cells != "" {
				return w.impl.cells, true
			}
		}
	case *ast.UnaryExpr:
		if v.Op == token.AND {
			return w.rootField(fr, v.X)
		}
	}
	return "", false
}

// block walks statements; returns true when the path terminated (return)
func (w *lfWalker) block(fr *lfFrame, list []ast.Stmt) bool {
	for _, s := range list {
		if w.stmt(fr, s) {
			return true
		}
	}
	return false
}

// branches walks alternative bodies from the same lock state and joins the states of those that fall through
func (w *lfWalker) branches(fr *lfFrame, bodies [][]ast.Stmt, exhaustive bool, pos token.Pos) bool {
	h0, nl0 := fr.held, w.noloops
	var outs []uint
	allTerm := true
	nl := nl0
	for _, b := range bodies {
		fr.held = h0
		w.noloops = nl0
		if !w.block(fr, b) {
			outs = append(outs, fr.held)
			allTerm = false
		}
		nl = nl || w.noloops
	}
	w.noloops = nl
	if !exhaustive {
		outs = append(outs, h0)
		allTerm = false
	}
	if allTerm {
		fr.held = h0
		return true
	}
	fr.held = outs[0]
	for _, o := range outs[1:] {
		if o != fr.held {
			lfWarnings = append(lfWarnings, fmt.Sprintf("%s/%s: lock state differs between branches at line %d", w.impl.name, w.entry, lfFset.Position(pos).Line))
			fr.held &= o // conservative: only what every branch holds
		}
	}
	return false
}

func (w *lfWalker) stmt(fr *lfFrame, s ast.Stmt) bool {
	switch v := s.(type) {
	case nil:
	case *ast.ExprStmt:
		w.expr(fr, v.X)
	case *ast.AssignStmt:
		w.assign(fr, v)
	case *ast.IncDecStmt:
		if f, ok := w.rootField(fr, v.X); ok {
			w.emit(f, false, fr.held, v.Pos())
			w.emit(f, true, fr.held, v.Pos())
		}
		w.lvalueReads(fr, v.X)
	case *ast.DeclStmt:
		if gd, ok := v.Decl.(*ast.GenDecl); ok {
			for _, sp := range gd.Specs {
				if vs, ok := sp.(*ast.ValueSpec); ok {
					for _, e := range vs.Values {
						w.expr(fr, e)
					}
				}
			}
		}
	case *ast.ReturnStmt:
		for _, r := range v.Results {
			w.expr(fr, r)
		}
		return true
	case *ast.BlockStmt:
		return w.block(fr, v.List)
	case *ast.LabeledStmt:
		return w.stmt(fr, v.Stmt)
	case *ast.IfStmt:
		w.stmt(fr, v.Init)
		w.expr(fr, v.Cond)
		bodies := [][]ast.Stmt{v.Body.List}
		exhaustive := false
		if v.Else != nil {
			bodies = append(bodies, []ast.Stmt{v.Else})
			exhaustive = true
		}
		return w.branches(fr, bodies, exhaustive, v.Pos())
	case *ast.ForStmt:
		w.stmt(fr, v.Init)
		w.expr(fr, v.Cond)
		h0 := fr.held
		body := append([]ast.Stmt{}, v.Body.List...)
		if v.Post != nil {
			body = append(body, v.Post)
		}
		w.branches(fr, [][]ast.Stmt{body}, false, v.Pos())
		if fr.held != h0 {
			lfWarnings = append(lfWarnings, fmt.Sprintf("%s/%s: loop body changes the lock state at line %d", w.impl.name, w.entry, lfFset.Position(v.Pos()).Line))
		}
		if v.Cond == nil && !lfHasBreak(v.Body) {
			return true // for { … } without break only leaves through return
		}
	case *ast.RangeStmt:
		w.expr(fr, v.X)
		w.branches(fr, [][]ast.Stmt{v.Body.List}, false, v.Pos())
	case *ast.SwitchStmt:
		w.stmt(fr, v.Init)
		w.expr(fr, v.Tag)
		return w.clauses(fr, v.Body, v.Pos())
	case *ast.TypeSwitchStmt:
		w.stmt(fr, v.Init)
		w.stmt(fr, v.Assign)
		return w.clauses(fr, v.Body, v.Pos())
	case *ast.SelectStmt:
		return w.clauses(fr, v.Body, v.Pos())
	case *ast.SendStmt:
		w.expr(fr, v.Chan)
		w.expr(fr, v.Value)
	case *ast.GoStmt:
		// a new goroutine: its body is a separate entry point (mainLoop / inputLoop); only the arguments are
		// evaluated here
		for _, a := range v.Call.Args {
			w.expr(fr, a)
		}
	case *ast.DeferStmt:
		if sel, ok := v.Call.Fun.(*ast.SelectorExpr); ok {
			if sel.Sel.Name == "Unlock" {
				if bit, ok := w.mutexOf(fr, sel.X); ok {
					fr.deferUnl |= bit
					return false
				}
			}
		}
		if fl, ok := v.Call.Fun.(*ast.FuncLit); ok {
			fr.deferred = append(fr.deferred, fl)
			return false
		}
		// other deferred calls (wg.Done, close(ch)): evaluate now; they are synchronisation operations
		w.expr(fr, v.Call)
	case *ast.BranchStmt, *ast.EmptyStmt:
	}
	return false
}

func lfHasBreak(b *ast.BlockStmt) bool {
	found := false
	var visit func(n ast.Node, depth int)
	visit = func(n ast.Node, depth int) {
		ast.Inspect(n, func(x ast.Node) bool {
			switch v := x.(type) {
			case *ast.BranchStmt:
				if v.Tok == token.BREAK && (depth == 0 || v.Label != nil) {
					found = true
				}
			case *ast.ForStmt, *ast.RangeStmt, *ast.SwitchStmt, *ast.SelectStmt, *ast.TypeSwitchStmt:
				if x != n {
					visit(x, depth+1)
					return false
				}
			case *ast.FuncLit:
				return false
			}
			return true
		})
	}
	for _, s := range b.List {
		visit(s, 0)
	}
	return found
}

func (w *lfWalker) clauses(fr *lfFrame, body *ast.BlockStmt, pos token.Pos) bool {
	var bodies [][]ast.Stmt
	exhaustive := false
	for _, c := range body.List {
		switch cc := c.(type) {
		case *ast.CaseClause:
			for _, e := range cc.List {
				w.expr(fr, e)
			}
			if cc.List == nil {
				exhaustive = true
			}
			bodies = append(bodies, cc.Body)
		case *ast.CommClause:
			if cc.Comm == nil {
				exhaustive = true
			}
			b := cc.Body
			if cc.Comm != nil {
				b = append([]ast.Stmt{cc.Comm}, b...)
			}
			bodies = append(bodies, b)
		}
	}
	if lfParentIsSelect[body] {
		exhaustive = true // a select runs exactly one of its bodies (it blocks when there is no default)
	}
	return w.branches(fr, bodies, exhaustive, pos)
}

var lfParentIsSelect = map[*ast.BlockStmt]bool{}

// ---- driver ------------------------------------------------------------------------------------------------

func lfParse(repo string) (impls []*lfImpl) {
	ts := &lfImpl{name: "tscreen", typ: "tScreen", ftype: map[string]string{}, methods: map[string]*ast.FuncDecl{}}
	ss := &lfImpl{name: "sim", typ: "simscreen", ftype: map[string]string{}, methods: map[string]*ast.FuncDecl{}}
	byType := map[string]*lfImpl{"tScreen": ts, "simscreen": ss}
	files := []string{"tscreen.go", "tscreen_unix.go", "screen.go", "simulation.go"}
	for _, fn := range files {
		p := filepath.Join(repo, fn)
		if _, err := os.Stat(p); err != nil {
			if fn == "tscreen_unix.go" {
				continue
			}
			must(err)
		}
		f, err := parser.ParseFile(lfFset, p, nil, 0)
		must(err)
		ast.Inspect(f, func(n ast.Node) bool {
			if s, ok := n.(*ast.SelectStmt); ok {
				lfParentIsSelect[s.Body] = true
			}
			return true
		})
		for _, d := range f.Decls {
			switch v := d.(type) {
			case *ast.FuncDecl:
				rt, _ := lfRecv(v)
				if v.Body == nil {
					continue
				}
				if im, ok := byType[rt]; ok {
					if _, dup := im.methods[v.Name.Name]; !dup {
						im.methods[v.Name.Name] = v
					}
				} else if rt == "baseScreen" {
					lfBase[v.Name.Name] = v
				} else if rt == "" && v.Name.Name == "NewTerminfoScreenFromTtyTerminfo" {
					ts.methods["<constructor>"] = v
				} else if rt == "" && v.Name.Name == "NewSimulationScreen" {
					ss.methods["<constructor>"] = v
				}
			case *ast.GenDecl:
				for _, sp := range v.Specs {
					tsp, ok := sp.(*ast.TypeSpec)
					if !ok {
						continue
					}
					if st, ok := tsp.Type.(*ast.StructType); ok {
						if im, ok := byType[tsp.Name.Name]; ok {
							for _, fl := range st.Fields.List {
								tstr := lfTypeString(fl.Type)
								if len(fl.Names) == 0 {
									// embedded: sync.Mutex (the screen lock), Screen
									nm := tstr[strings.LastIndex(tstr, ".")+1:]
									im.fields = append(im.fields, nm)
									im.ftype[nm] = tstr
								}
								for _, n := range fl.Names {
									im.fields = append(im.fields, n.Name)
									im.ftype[n.Name] = tstr
								}
							}
						}
					}
					if it, ok := tsp.Type.(*ast.InterfaceType); ok {
						var names []string
						for _, m := range it.Methods.List {
							for _, n := range m.Names {
								names = append(names, n.Name)
							}
						}
						switch tsp.Name.Name {
						case "Screen":
							lfScreenIface = names
						case "screenImpl":
							lfImplIface = names
						case "SimulationScreen":
							ss.extra = names
						}
					}
				}
			}
		}
	}
	// mutexes: the embedded one first, then the named ones in declaration order; numbered globally
	lfMutexNames = nil
	for _, im := range []*lfImpl{ts, ss} {
		im.mbit = map[string]uint{}
		var named []string
		for _, f := range im.fields {
			if !lfIsMutexType(im.ftype[f]) {
				continue
			}
			if f == "Mutex" || f == "RWMutex" {
				im.mutexes = append([]string{f}, im.mutexes...)
			} else {
				named = append(named, f)
			}
		}
		im.mutexes = append(im.mutexes, named...)
		for _, m := range im.mutexes {
			key := m
			if m == "RWMutex" {
				key = "Mutex"
			}
			im.mbit[key] = 1 << uint(len(lfMutexNames))
			lfMutexNames = append(lfMutexNames, im.name+"/"+m)
		}
	}
	// pseudo-fields
	for _, im := range []*lfImpl{ts, ss} {
		for _, pf := range []string{"tty.out", "encoder.state", "decoder.state", "wg.state", "ti.eval"} {
			base := pf[:strings.Index(pf, ".")]
			if _, ok := im.ftype[base]; ok {
				im.fields = append(im.fields, pf)
				im.ftype[pf] = "pseudo"
			}
		}
		// which field does GetCells hand out?
		if gc, ok := im.methods["GetCells"]; ok {
			ast.Inspect(gc.Body, func(n ast.Node) bool {
				if u, ok := n.(*ast.UnaryExpr); ok && u.Op == token.AND {
					if sel, ok := u.X.(*ast.SelectorExpr); ok {
						im.cells = sel.Sel.Name
					}
				}
				return true
			})
		}
	}
	return []*lfImpl{ts, ss}
}

// constructor bodies use a local variable instead of a receiver: find it (`t := &tScreen{…}`)
func lfCtorRecv(fd *ast.FuncDecl, typ string) string {
	name := ""
	ast.Inspect(fd.Body, func(n ast.Node) bool {
		as, ok := n.(*ast.AssignStmt)
		if !ok || len(as.Lhs) != 1 || len(as.Rhs) != 1 {
			return true
		}
		if u, ok := as.Rhs[0].(*ast.UnaryExpr); ok && u.Op == token.AND {
			if cl, ok := u.X.(*ast.CompositeLit); ok {
				if id, ok := cl.Type.(*ast.Ident); ok && id.Name == typ {
					if l, ok := as.Lhs[0].(*ast.Ident); ok && name == "" {
						name = l.Name
						// fields set in the literal are writes too: handled by the caller
					}
				}
			}
		}
		return true
	})
	return name
}

type lfEntry struct {
	name string
	kind string // api | loop | init
}

func lfSyncType(t string) bool {
	return strings.HasPrefix(t, "sync.") || t == "Screen"
}

func genLockFacts() {
	impls := lfParse(repoDir)
	var all []lfFact
	var txt strings.Builder
	txt.WriteString("# GENERATED by harness/cmd/extract/lockfacts.go — lock facts of the Screen implementations (C10)\n")
	entriesOf := map[string][]lfEntry{}
	ifaceCount := map[string][2]int{}
	for _, im := range impls {
		var entries []lfEntry
		seen := map[string]bool{}
		add := func(n, k string) {
			if !seen[n] {
				seen[n] = true
				entries = append(entries, lfEntry{n, k})
			}
		}
		add("<constructor>", "init")
		resolved := 0
		names := append([]string{}, lfScreenIface...)
		if im.name == "sim" {
			for _, n := range im.extra {
				if n != "Screen" {
					names = append(names, n)
				}
			}
		}
		for _, n := range names {
			_, inBase := lfBase[n]
			_, inImpl := im.methods[n]
			if inBase || inImpl {
				resolved++
				k := "api"
				if n == "Init" {
					k = "init"
				}
				add(n, k)
			} else {
				lfWarnings = append(lfWarnings, fmt.Sprintf("%s: interface method %s has no body in the parsed files", im.name, n))
			}
		}
		ifaceCount[im.name] = [2]int{len(names), resolved}
		if im.name == "tscreen" {
			add("mainLoop", "loop")
			add("inputLoop", "loop")
		}
		pending := map[string]*ast.FuncLit{}
		walkEntry := func(e lfEntry, lit *ast.FuncLit) {
			w := &lfWalker{impl: im, entry: e.name, conc: e.kind != "init", facts: map[string]lfFact{}, entries: pending}
			fr := &lfFrame{alias: map[string]string{}}
			switch {
			case lit != nil:
				// the callback closes over the receiver of engage
				_, rn := lfRecv(im.methods["engage"])
				fr.recv = rn
				w.stack = []string{e.name}
				w.block(fr, lit.Body.List)
			case e.name == "<constructor>":
				fd := im.methods["<constructor>"]
				fr.recv = lfCtorRecv(fd, im.typ)
				// composite literal fields
				ast.Inspect(fd.Body, func(n ast.Node) bool {
					if cl, ok := n.(*ast.CompositeLit); ok {
						if id, ok := cl.Type.(*ast.Ident); ok && id.Name == im.typ {
							for _, el := range cl.Elts {
								if kv, ok := el.(*ast.KeyValueExpr); ok {
									if k, ok := kv.Key.(*ast.Ident); ok {
										w.emit(k.Name, true, 0, kv.Pos())
									}
								}
							}
						}
					}
					return true
				})
				w.stack = []string{e.name}
				w.block(fr, fd.Body.List)
			default:
				if fd, ok := lfBase[e.name]; ok {
					_, rn := lfRecv(fd)
					fr.recv, fr.base = rn, true
					w.stack = []string{"base." + e.name}
					w.block(fr, fd.Body.List)
					w.finish(fr)
				} else {
					fd := im.methods[e.name]
					_, rn := lfRecv(fd)
					fr.recv = rn
					w.stack = []string{e.name}
					w.switchAtEngage = e.name == "Init"
					w.block(fr, fd.Body.List)
					w.finish(fr)
				}
			}
			if fr.held != 0 {
				lfWarnings = append(lfWarnings, fmt.Sprintf("%s/%s: returns holding %s", im.name, e.name, strings.Join(lfLockNames(fr.held), ",")))
			}
			for _, k := range w.order {
				all = append(all, w.facts[k])
			}
		}
		for _, e := range entries {
			walkEntry(e, nil)
		}
		var pn []string
		for n := range pending {
			pn = append(pn, n)
		}
		sort.Strings(pn)
		for _, n := range pn {
			e := lfEntry{n, "cb"}
			entries = append(entries, e)
			walkEntry(e, pending[n])
		}
		entriesOf[im.name] = entries
	}

	// ---- classification (mirrors Tcell.Model.Lockset.classify; the kernel re-checks the flagged list) ----
	type fkey struct{ impl, field string }
	concWrite := map[fkey]bool{}
	accessors := map[fkey]map[string]bool{}
	touched := map[fkey]bool{}
	for _, f := range all {
		k := fkey{f.impl, f.field}
		touched[k] = true
		if f.conc && f.wr {
			concWrite[k] = true
		}
		if f.conc {
			if accessors[k] == nil {
				accessors[k] = map[string]bool{}
			}
			accessors[k][f.entry] = true
		}
	}
	kindOf := map[string]map[string]string{}
	for _, im := range impls {
		kindOf[im.name] = map[string]string{}
		for _, e := range entriesOf[im.name] {
			kindOf[im.name][e.name] = e.kind
		}
	}
	// class: 0 guarded-required, 1 init-only, 2 sync, 3 confined (only one internal goroutine touches it)
	classOf := func(im *lfImpl, field string) int {
		k := fkey{im.name, field}
		if lfSyncType(im.ftype[field]) {
			return 2
		}
		if !concWrite[k] {
			return 1
		}
		if len(accessors[k]) == 1 {
			for e := range accessors[k] {
				if kindOf[im.name][e] == "loop" {
					return 3
				}
			}
		}
		return 0
	}

	// guard of a field (mirrors Lockset.blameGuard): the lowest-numbered mutex held at EVERY concurrent-phase access;
	// when there is none, the lowest-numbered mutex held at some access (the others get the blame), else 0
	guardOf := func(im *lfImpl, field string) int {
		var masks []uint
		for _, f := range all {
			if f.impl == im.name && f.field == field && f.conc {
				masks = append(masks, f.locks)
			}
		}
		for m := range lfMutexNames {
			okAll := true
			for _, k := range masks {
				if k&(1<<uint(m)) == 0 {
					okAll = false
				}
			}
			if okAll {
				return m
			}
		}
		for m := range lfMutexNames {
			for _, k := range masks {
				if k&(1<<uint(m)) != 0 {
					return m
				}
			}
		}
		return 0
	}
	hasCommon := func(im *lfImpl, field string) bool {
		g := guardOf(im, field)
		for _, f := range all {
			if f.impl == im.name && f.field == field && f.conc && f.locks&(1<<uint(g)) == 0 {
				return false
			}
		}
		return true
	}

	// ---- numbering -----------------------------------------------------------------------------------------
	var lb strings.Builder
	lb.WriteString("-- GENERATED by harness/cmd/extract/lockfacts.go from tscreen.go, screen.go, simulation.go; do not edit.\n")
	lb.WriteString("import Tcell.Model.Lockset\nnamespace Tcell.Gen.LockFacts\nopen Tcell.Model.Lockset\n\n")
	entryId := map[string]int{}
	fieldId := map[string]int{}
	var entryNames, fieldNames []string
	var fieldClass, fieldGuard []int
	entryKind := []int{}
	for _, im := range impls {
		for _, e := range entriesOf[im.name] {
			entryId[im.name+"/"+e.name] = len(entryNames)
			entryNames = append(entryNames, im.name+"/"+e.name)
			k := 0
			switch e.kind {
			case "loop":
				k = 1
			case "init":
				k = 2
			case "cb":
				k = 3
			}
			entryKind = append(entryKind, k)
		}
		for _, f := range im.fields {
			fieldId[im.name+"/"+f] = len(fieldNames)
			fieldNames = append(fieldNames, im.name+"/"+f)
			fieldClass = append(fieldClass, classOf(im, f))
			fieldGuard = append(fieldGuard, guardOf(im, f))
		}
	}
	for i, n := range lfMutexNames {
		fmt.Fprintf(&txt, "mutex %d %s %s\n", i, n[:strings.Index(n, "/")], n[strings.Index(n, "/")+1:])
	}
	cname := []string{"guarded", "init-only", "sync", "confined"}
	for _, im := range impls {
		ic := ifaceCount[im.name]
		fmt.Fprintf(&txt, "impl %s type=%s interface_methods=%d resolved=%d entries=%d fields=%d\n", im.name, im.typ, ic[0], ic[1], len(entriesOf[im.name]), len(im.fields))
		for _, e := range entriesOf[im.name] {
			fmt.Fprintf(&txt, "entry %s %s %s\n", im.name, e.name, e.kind)
		}
		for _, f := range im.fields {
			t := "untouched"
			if touched[fkey{im.name, f}] {
				t = "touched"
			}
			g := "-"
			if classOf(im, f) == 0 {
				g = lfMutexNames[guardOf(im, f)]
				g = g[strings.Index(g, "/")+1:]
				if !hasCommon(im, f) {
					g = "!" + g // the lock sets of the accesses have no common mutex: accesses not holding this one are flagged
				}
			}
			fmt.Fprintf(&txt, "field %s %s %s %s type=%s guard=%s\n", im.name, f, cname[classOf(im, f)], t, strings.ReplaceAll(im.ftype[f], " ", "_"), g)
		}
	}
	b2 := func(b bool) string {
		if b {
			return "true"
		}
		return "false"
	}
	rw := func(b bool) string {
		if b {
			return "wr"
		}
		return "rd"
	}
	lb.WriteString("def entryNames : List String := [")
	for i, n := range entryNames {
		if i > 0 {
			lb.WriteString(", ")
		}
		fmt.Fprintf(&lb, "%q", n)
	}
	lb.WriteString("]\n\ndef fieldNames : List String := [")
	for i, n := range fieldNames {
		if i > 0 {
			lb.WriteString(", ")
		}
		fmt.Fprintf(&lb, "%q", n)
	}
	lb.WriteString("]\n\n/-- class of every struct field, indexed by field id: 0 must be guarded, 1 init-only, 2 synchronisation primitive, 3 confined to one internal goroutine -/\ndef fieldClass : List Nat := [")
	for i, c := range fieldClass {
		if i > 0 {
			lb.WriteString(", ")
		}
		fmt.Fprintf(&lb, "%d", c)
	}
	lb.WriteString("]\n\n/-- the mutexes of the screen types, numbered: the embedded `sync.Mutex` (the screen lock) and every named sync.Mutex field -/\ndef mutexNames : List String := [")
	for i, n := range lfMutexNames {
		if i > 0 {
			lb.WriteString(", ")
		}
		fmt.Fprintf(&lb, "%q", n)
	}
	fmt.Fprintf(&lb, "]\n\ndef nMutexes : Nat := %d\n", len(lfMutexNames))
	lb.WriteString("\n/-- for every field id the mutex its accesses are judged against (`Lockset.blameGuard`); `Props.C10.guards_exact` re-derives it -/\ndef guards : List Nat := [")
	for i, g := range fieldGuard {
		if i > 0 {
			lb.WriteString(", ")
		}
		fmt.Fprintf(&lb, "%d", g)
	}
	lb.WriteString("]\n\n/-- ids of the fields whose declared type is a synchronisation primitive (sync.Mutex, sync.Once, sync.WaitGroup) or the embedded Screen -/\ndef syncFields : List Nat := [")
	first := true
	for i, c := range fieldClass {
		if c == 2 {
			if !first {
				lb.WriteString(", ")
			}
			first = false
			fmt.Fprintf(&lb, "%d", i)
		}
	}
	lb.WriteString("]\n\n/-- ids of the fields the translator classifies as needing no lock (class 1, 2 or 3); `Props.C10.exempt_exact` re-derives it -/\ndef exempt : List Nat := [")
	first = true
	for i, c := range fieldClass {
		if c != 0 {
			if !first {
				lb.WriteString(", ")
			}
			first = false
			fmt.Fprintf(&lb, "%d", i)
		}
	}
	fmt.Fprintf(&lb, "]\n\ndef nFields : Nat := %d\n", len(fieldNames))
	lb.WriteString("\n/-- kind of every entry point: 0 public API, 1 internal goroutine (one live instance), 2 constructor/Init, 3 callback -/\ndef entryKind : List Nat := [")
	for i, c := range entryKind {
		if i > 0 {
			lb.WriteString(", ")
		}
		fmt.Fprintf(&lb, "%d", c)
	}
	lb.WriteString("]\n\n/-- (entry, field, write?, ids of the mutexes held, concurrent phase?, after wg.Wait?) -/\ndef facts : List Fact := [\n")
	var flagged []lfFact
	implByName := map[string]*lfImpl{}
	for _, im := range impls {
		implByName[im.name] = im
	}
	for i, f := range all {
		sep := ","
		if i == len(all)-1 {
			sep = ""
		}
		fmt.Fprintf(&lb, "  ⟨%d, %d, %s, %s, %s, %s⟩%s -- %s %s %s line %d\n", entryId[f.impl+"/"+f.entry], fieldId[f.impl+"/"+f.field],
			b2(f.wr), lfLockIds(f.locks), b2(f.conc), b2(f.noloops), sep, f.impl+"/"+f.entry, rw(f.wr), f.field, f.line)
		ph := "init"
		if f.conc {
			ph = "conc"
		}
		g := "unlocked"
		if f.held {
			g = "locked"
		}
		nl := ""
		if f.noloops {
			nl = " noloops"
		}
		ls := make([]string, len(f.lines))
		for i, l := range f.lines {
			ls[i] = fmt.Sprint(l)
		}
		lk := strings.Join(lfLockNames(f.locks), ",")
		if lk == "" {
			lk = "-"
		}
		fmt.Fprintf(&txt, "fact %s %s %s %s %s %s lines=%s locks=%s%s\n", f.impl, f.entry, f.field, rw(f.wr), g, ph, strings.Join(ls, ","), lk, nl)
		if f.conc && classOf(implByName[f.impl], f.field) == 0 && f.locks&(1<<uint(fieldGuard[fieldId[f.impl+"/"+f.field]])) == 0 {
			flagged = append(flagged, f)
		}
	}
	lb.WriteString("]\n\n/-- the facts the translator's own evaluation of the discipline flags; `Props.C10.flagged_exact` makes the kernel\n    recompute this list from `facts` with the Lean definition -/\ndef flagged : List Fact := [\n")
	for i, f := range flagged {
		sep := ","
		if i == len(flagged)-1 {
			sep = ""
		}
		fmt.Fprintf(&lb, "  ⟨%d, %d, %s, %s, %s, %s⟩%s -- %s %s %s line %d\n", entryId[f.impl+"/"+f.entry], fieldId[f.impl+"/"+f.field],
			b2(f.wr), lfLockIds(f.locks), b2(f.conc), b2(f.noloops), sep, f.impl+"/"+f.entry, rw(f.wr), f.field, f.line)
		nl := ""
		if f.noloops {
			nl = " noloops"
		}
		lk := strings.Join(lfLockNames(f.locks), ",")
		if lk == "" {
			lk = "-"
		}
		gn := lfMutexNames[fieldGuard[fieldId[f.impl+"/"+f.field]]]
		fmt.Fprintf(&txt, "flagged %s %s %s %s line=%d locks=%s guard=%s%s\n", f.impl, f.entry, f.field, rw(f.wr), f.line, lk, gn[strings.Index(gn, "/")+1:], nl)
	}
	lb.WriteString("]\n\n")
	// draw shape (show_block_contiguous): see lfDrawShape
	for _, im := range impls {
		if im.name != "tscreen" {
			continue
		}
		sh := lfDrawShape(im)
		fmt.Fprintf(&lb, "/-- shape of tScreen.draw and of the two low-level writers, read off the AST: draw sets `buffering` before the first\n    emission, resets it in a deferred function, and hands `buf` to the tty exactly once, as its last statement;\n    writeString/TPuts choose between `&t.buf` and `t.tty` by testing `t.buffering` and nothing else writes the tty -/\n")
		fmt.Fprintf(&lb, "def drawSetsBuffering : Bool := %s\ndef drawResetsBufferingDeferred : Bool := %s\ndef drawSingleFinalWrite : Bool := %s\ndef writersBranchOnBuffering : Bool := %s\ndef directTtyWriters : List String := [", b2(sh.sets), b2(sh.resets), b2(sh.single), b2(sh.writers))
		for i, n := range sh.direct {
			if i > 0 {
				lb.WriteString(", ")
			}
			fmt.Fprintf(&lb, "%q", n)
		}
		lb.WriteString("]\n")
		fmt.Fprintf(&txt, "drawshape sets=%v resets=%v single=%v writers=%v direct=%s\n", sh.sets, sh.resets, sh.single, sh.writers, strings.Join(sh.direct, ","))
	}
	lb.WriteString("\nend Tcell.Gen.LockFacts\n")
	sort.Strings(lfWarnings)
	for _, wmsg := range lfWarnings {
		fmt.Fprintf(&txt, "warning %s\n", wmsg)
	}
	writeFile(leanDir+"/Tcell/Gen/LockFacts.lean", lb.String())
	writeFile(outDir+"/lockfacts.txt", txt.String())
	// cross-checks of the extraction itself
	for _, im := range impls {
		ic := ifaceCount[im.name]
		if ic[0] == 0 || ic[0] != ic[1] {
			must(fmt.Errorf("lockfacts: %s: %d interface methods, %d resolved", im.name, ic[0], ic[1]))
		}
		if len(im.fields) == 0 {
			must(fmt.Errorf("lockfacts: %s: struct not found", im.name))
		}
	}
}

type lfShape struct {
	sets, resets, single, writers bool
	direct                         []string
}

// lfDrawShape reads the syntactic shape show_block_contiguous relies on.
func lfDrawShape(im *lfImpl) lfShape {
	var sh lfShape
	draw := im.methods["draw"]
	if draw == nil {
		return sh
	}
	_, rn := lfRecv(draw)
	isRecvSel := func(e ast.Expr, name string) bool {
		s, ok := e.(*ast.SelectorExpr)
		if !ok || s.Sel.Name != name {
			return false
		}
		id, ok := s.X.(*ast.Ident)
		return ok && id.Name == rn
	}
	mentionsTty := func(n ast.Node) bool {
		found := false
		ast.Inspect(n, func(x ast.Node) bool {
			if s, ok := x.(*ast.SelectorExpr); ok && s.Sel.Name == "tty" {
				found = true
			}
			return true
		})
		return found
	}
	// (1) buffering = true precedes any call statement other than buf.Reset; (2) deferred reset; (3) last stmt
	// is the single mention of t.tty in draw
	setIdx, firstCall := -1, -1
	ttyMentions := 0
	for i, s := range draw.Body.List {
		if as, ok := s.(*ast.AssignStmt); ok && len(as.Lhs) == 1 && isRecvSel(as.Lhs[0], "buffering") {
			if id, ok := as.Rhs[0].(*ast.Ident); ok && id.Name == "true" && setIdx < 0 {
				setIdx = i
			}
		}
		if es, ok := s.(*ast.ExprStmt); ok {
			if c, ok := es.X.(*ast.CallExpr); ok {
				if sel, ok := c.Fun.(*ast.SelectorExpr); ok {
					if !(isRecvSel(sel.X, "buf") && sel.Sel.Name == "Reset") && firstCall < 0 {
						firstCall = i
					}
				}
			}
		}
		if ds, ok := s.(*ast.DeferStmt); ok {
			if fl, ok := ds.Call.Fun.(*ast.FuncLit); ok {
				for _, bs := range fl.Body.List {
					if as, ok := bs.(*ast.AssignStmt); ok && len(as.Lhs) == 1 && isRecvSel(as.Lhs[0], "buffering") {
						if id, ok := as.Rhs[0].(*ast.Ident); ok && id.Name == "false" {
							sh.resets = true
						}
					}
				}
			}
		}
		if mentionsTty(s) {
			ttyMentions++
		}
	}
	sh.sets = setIdx >= 0 && (firstCall < 0 || setIdx < firstCall)
	last := draw.Body.List[len(draw.Body.List)-1]
	if as, ok := last.(*ast.AssignStmt); ok && len(as.Rhs) == 1 {
		if c, ok := as.Rhs[0].(*ast.CallExpr); ok {
			if sel, ok := c.Fun.(*ast.SelectorExpr); ok && sel.Sel.Name == "WriteTo" && isRecvSel(sel.X, "buf") && len(c.Args) == 1 && mentionsTty(c.Args[0]) {
				sh.single = ttyMentions == 1
			}
		}
	}
	// writers: every method that hands t.tty to a writer
	sh.writers = true
	for name, fd := range im.methods {
		if name == "draw" || name == "<constructor>" {
			continue
		}
		_, r2 := lfRecv(fd)
		writes := false
		ast.Inspect(fd.Body, func(x ast.Node) bool {
			c, ok := x.(*ast.CallExpr)
			if !ok {
				return true
			}
			for _, a := range c.Args {
				if s, ok := a.(*ast.SelectorExpr); ok && s.Sel.Name == "tty" {
					if id, ok := s.X.(*ast.Ident); ok && id.Name == r2 {
						writes = true
					}
				}
			}
			if s, ok := c.Fun.(*ast.SelectorExpr); ok && s.Sel.Name == "Write" {
				if s2, ok := s.X.(*ast.SelectorExpr); ok && s2.Sel.Name == "tty" {
					writes = true
				}
			}
			return true
		})
		if !writes {
			continue
		}
		sh.direct = append(sh.direct, name)
		// shape: single if statement `if r.buffering { …&r.buf… } else { …r.tty… }`
		ok := false
		if len(fd.Body.List) == 1 {
			if is, isIf := fd.Body.List[0].(*ast.IfStmt); isIf && is.Else != nil {
				if s, isSel := is.Cond.(*ast.SelectorExpr); isSel && s.Sel.Name == "buffering" {
					if !mentionsTty(is.Body) && mentionsTty(is.Else) {
						ok = true
					}
				}
			}
		}
		if !ok {
			sh.writers = false
		}
	}
	sort.Strings(sh.direct)
	return sh
}
