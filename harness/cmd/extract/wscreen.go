package main

// Translator for C19: wscreen.go carries the build tag js&&wasm, so it is not part of the natively built
// package; it is read with go/parser + go/types (constants only) instead.
//
//	gen/webkeys.txt, lean/Tcell/Gen/WebKeys.lean        WebKeyNames (name -> Key value), the `palette` map, curStyleClasses
//	gen/wlockfacts.txt, lean/Tcell/Gen/WLockFacts.lean  lock skeleton (Lock/Unlock/defer/return/if/loop) of every *wScreen method
//	gen/colorvalues.txt                                 tcell.ColorValues (Color.Hex of palette/named colours), read by the driver

import (
	"bytes"
	"fmt"
	"go/ast"
	"go/constant"
	"go/parser"
	"go/printer"
	"go/token"
	"go/types"
	"os"
	"path/filepath"
	"sort"
	"strconv"
	"strings"

	"github.com/gdamore/tcell/v2"
)

type fakeImporter struct{}

func (fakeImporter) Import(path string) (*types.Package, error) {
	name := path
	if i := strings.LastIndex(path, "/"); i >= 0 {
		name = path[i+1:]
	}
	p := types.NewPackage(path, name)
	p.MarkComplete()
	return p, nil
}

func wLeanStr(s string) string {
	var b strings.Builder
	b.WriteByte('"')
	for _, r := range s {
		switch {
		case r == '"':
			b.WriteString("\\\"")
		case r == '\\':
			b.WriteString("\\\\")
		case r < 32 || r == 127:
			fmt.Fprintf(&b, "\\x%02x", r)
		default:
			b.WriteRune(r)
		}
	}
	b.WriteByte('"')
	return b.String()
}

type wsx struct {
	fset *token.FileSet
	info *types.Info
	file *ast.File
	recv map[string]*ast.FuncDecl // methods of *wScreen
}

func (w *wsx) constVal(e ast.Expr) (int64, bool) {
	if tv, ok := w.info.Types[e]; ok && tv.Value != nil {
		if v, ok := constant.Int64Val(constant.ToInt(tv.Value)); ok {
			return v, true
		}
	}
	return 0, false
}

func (w *wsx) src(n ast.Node) string {
	var b bytes.Buffer
	printer.Fprint(&b, w.fset, n)
	return strings.Join(strings.Fields(b.String()), " ")
}

// mapLiteral returns the key/value expressions of the composite literal initialising package variable `name`.
func (w *wsx) mapLiteral(name string) []*ast.KeyValueExpr {
	var out []*ast.KeyValueExpr
	for _, d := range w.file.Decls {
		gd, ok := d.(*ast.GenDecl)
		if !ok || gd.Tok != token.VAR {
			continue
		}
		for _, sp := range gd.Specs {
			vs := sp.(*ast.ValueSpec)
			for i, n := range vs.Names {
				if n.Name == name && i < len(vs.Values) {
					if cl, ok := vs.Values[i].(*ast.CompositeLit); ok {
						for _, e := range cl.Elts {
							if kv, ok := e.(*ast.KeyValueExpr); ok {
								out = append(out, kv)
							}
						}
					}
				}
			}
		}
	}
	return out
}

// ---- lock skeleton

func recvName(fd *ast.FuncDecl) string {
	if fd.Recv == nil || len(fd.Recv.List) == 0 || len(fd.Recv.List[0].Names) == 0 {
		return ""
	}
	return fd.Recv.List[0].Names[0].Name
}

func isWScreenMethod(fd *ast.FuncDecl) bool {
	if fd.Recv == nil || len(fd.Recv.List) == 0 {
		return false
	}
	t := fd.Recv.List[0].Type
	if s, ok := t.(*ast.StarExpr); ok {
		t = s.X
	}
	id, ok := t.(*ast.Ident)
	return ok && id.Name == "wScreen"
}

// selfCall reports the method name when call is `<recv>.<name>(…)`.
func selfCall(call *ast.CallExpr, recv string) (string, bool) {
	se, ok := call.Fun.(*ast.SelectorExpr)
	if !ok {
		return "", false
	}
	id, ok := se.X.(*ast.Ident)
	if !ok || id.Name != recv {
		return "", false
	}
	return se.Sel.Name, true
}

// touchesLock: does the method (transitively through calls on the receiver) contain Lock/Unlock?
func (w *wsx) touchesLock(name string, seen map[string]bool) bool {
	fd := w.recv[name]
	if fd == nil || fd.Body == nil || seen[name] {
		return false
	}
	seen[name] = true
	r := recvName(fd)
	found := false
	ast.Inspect(fd.Body, func(n ast.Node) bool {
		if _, ok := n.(*ast.FuncLit); ok {
			return false
		}
		if c, ok := n.(*ast.CallExpr); ok {
			if m, ok := selfCall(c, r); ok {
				if m == "Lock" || m == "Unlock" || w.touchesLock(m, seen) {
					found = true
				}
			}
		}
		return !found
	})
	return found
}

// callsIn lists, in source order, the receiver-method calls inside an expression/statement (closures skipped).
func (w *wsx) callsIn(n ast.Node, recv string) []string {
	var out []string
	if n == nil {
		return nil
	}
	ast.Inspect(n, func(n ast.Node) bool {
		if _, ok := n.(*ast.FuncLit); ok {
			return false
		}
		if c, ok := n.(*ast.CallExpr); ok {
			if m, ok := selfCall(c, recv); ok {
				out = append(out, m)
			}
		}
		return true
	})
	return out
}

// wrapCalls prefixes continuation k with the skeleton events of the receiver calls found in n.
func (w *wsx) wrapCalls(n ast.Node, recv string, k string) string {
	calls := w.callsIn(n, recv)
	for i := len(calls) - 1; i >= 0; i-- {
		m := calls[i]
		switch {
		case m == "Lock":
			k = "(.lock " + k + ")"
		case m == "Unlock":
			k = "(.unlock " + k + ")"
		case m == "postEvent":
			k = "(.post " + k + ")"
		case w.touchesLock(m, map[string]bool{}):
			k = "(.callLocking " + wLeanStr(m) + " " + k + ")"
		}
	}
	return k
}

func (w *wsx) block(stmts []ast.Stmt, recv string, k string) string {
	for i := len(stmts) - 1; i >= 0; i-- {
		k = w.stmt(stmts[i], recv, k)
	}
	return k
}

func (w *wsx) stmt(s ast.Stmt, recv string, k string) string {
	switch s := s.(type) {
	case *ast.ReturnStmt:
		return w.wrapCalls(s, recv, ".ret")
	case *ast.DeferStmt:
		if m, ok := selfCall(s.Call, recv); ok && m == "Unlock" {
			return "(.deferUnlock " + k + ")"
		}
		return k
	case *ast.BlockStmt:
		return w.block(s.List, recv, k)
	case *ast.IfStmt:
		els := ".nil"
		if s.Else != nil {
			els = w.stmt(s.Else, recv, ".nil")
		}
		r := "(.ite " + wLeanStr(w.src(s.Cond)) + " " + w.block(s.Body.List, recv, ".nil") + " " + els + " " + k + ")"
		r = w.wrapCalls(s.Cond, recv, r)
		if s.Init != nil {
			r = w.stmt(s.Init, recv, r)
		}
		return r
	case *ast.ForStmt:
		return "(.loop " + w.block(s.Body.List, recv, ".nil") + " " + k + ")"
	case *ast.RangeStmt:
		return "(.loop " + w.block(s.Body.List, recv, ".nil") + " " + k + ")"
	case *ast.SwitchStmt:
		return w.cases(s.Body, recv, k)
	case *ast.TypeSwitchStmt:
		return w.cases(s.Body, recv, k)
	case *ast.SelectStmt:
		return w.cases(s.Body, recv, k)
	case *ast.AssignStmt:
		if len(s.Lhs) == 1 && len(s.Rhs) == 1 {
			if se, ok := s.Lhs[0].(*ast.SelectorExpr); ok && se.Sel.Name == "running" {
				if id, ok := s.Rhs[0].(*ast.Ident); ok && (id.Name == "true" || id.Name == "false") {
					return "(.setRunning " + id.Name + " " + k + ")"
				}
			}
		}
		return w.wrapCalls(s, recv, k)
	case *ast.LabeledStmt:
		return w.stmt(s.Stmt, recv, k)
	default:
		return w.wrapCalls(s, recv, k)
	}
}

func (w *wsx) cases(body *ast.BlockStmt, recv string, k string) string {
	// a switch/select becomes a chain of nondeterministic branches; a missing default is the empty branch
	if len(body.List) == 0 {
		return k
	}
	r := ".nil"
	for i := len(body.List) - 1; i >= 0; i-- {
		var b []ast.Stmt
		switch c := body.List[i].(type) {
		case *ast.CaseClause:
			b = c.Body
		case *ast.CommClause:
			b = c.Body
		}
		kk := ".nil"
		if i == 0 {
			kk = k
		}
		r = "(.ite \"case\" " + w.block(b, recv, ".nil") + " " + r + " " + kk + ")"
	}
	return r
}

func genWScreen() {
	fset := token.NewFileSet()
	var files []*ast.File
	var wfile *ast.File
	for _, n := range []string{"key.go", "color.go", "screen.go", "mouse.go", "attr.go", "wscreen.go"} {
		f, err := parser.ParseFile(fset, filepath.Join(repoDir, n), nil, parser.ParseComments)
		must(err)
		files = append(files, f)
		if n == "wscreen.go" {
			wfile = f
		}
	}
	info := &types.Info{Types: map[ast.Expr]types.TypeAndValue{}}
	conf := types.Config{Importer: fakeImporter{}, Error: func(error) {}}
	conf.Check("tcell", fset, files, info) // errors (missing files, fake imports) are expected; constants are still evaluated
	w := &wsx{fset: fset, info: info, file: wfile, recv: map[string]*ast.FuncDecl{}}
	for _, d := range wfile.Decls {
		if fd, ok := d.(*ast.FuncDecl); ok && isWScreenMethod(fd) {
			w.recv[fd.Name.Name] = fd
		}
	}

	// ---- tables
	type kv struct {
		k string
		v int64
	}
	var keys []kv
	for _, e := range w.mapLiteral("WebKeyNames") {
		name, err := strconv.Unquote(e.Key.(*ast.BasicLit).Value)
		must(err)
		v, ok := w.constVal(e.Value)
		if !ok {
			must(fmt.Errorf("WebKeyNames[%q]: value %s is not a constant", name, w.src(e.Value)))
		}
		keys = append(keys, kv{name, v})
	}
	sort.Slice(keys, func(i, j int) bool { return keys[i].k < keys[j].k })
	if len(keys) == 0 {
		must(fmt.Errorf("WebKeyNames not found in wscreen.go"))
	}
	type pv struct{ c, v int64 }
	var pal []pv
	for _, e := range w.mapLiteral("palette") {
		c, ok1 := w.constVal(e.Key)
		v, ok2 := w.constVal(e.Value)
		if !ok1 || !ok2 {
			must(fmt.Errorf("palette entry %s is not constant", w.src(e)))
		}
		pal = append(pal, pv{c, v})
	}
	sort.Slice(pal, func(i, j int) bool { return pal[i].c < pal[j].c })
	type cv struct {
		c int64
		s string
	}
	var curs []cv
	for _, e := range w.mapLiteral("curStyleClasses") {
		c, ok := w.constVal(e.Key)
		s, err := strconv.Unquote(w.src(e.Value))
		if !ok || err != nil {
			must(fmt.Errorf("curStyleClasses entry %s", w.src(e)))
		}
		curs = append(curs, cv{c, s})
	}
	sort.Slice(curs, func(i, j int) bool { return curs[i].c < curs[j].c })

	// the key names an independent reader would expect: tcell.KeyNames (key.go, natively built)
	var names []kv
	for k, n := range tcell.KeyNames {
		names = append(names, kv{n, int64(k)})
	}
	sort.Slice(names, func(i, j int) bool { return names[i].v < names[j].v })

	var tb, lb strings.Builder
	lb.WriteString("-- GENERATED by harness/cmd/extract (go/ast walk of wscreen.go); do not edit.\nnamespace Tcell.Gen\n\n")
	lb.WriteString("/-- wscreen.go `WebKeyNames`, sorted by name -/\ndef webKeys : List (String × Nat) := [\n")
	for i, e := range keys {
		fmt.Fprintf(&tb, "key %s %d\n", hexs(e.k), e.v)
		sep := ","
		if i == len(keys)-1 {
			sep = ""
		}
		fmt.Fprintf(&lb, "  (%s, %d)%s\n", wLeanStr(e.k), e.v, sep)
	}
	lb.WriteString("]\n\n/-- wscreen.go `palette` (Color value, 24-bit RGB), sorted -/\ndef wPalette : List (Nat × Int) := [")
	for i, e := range pal {
		fmt.Fprintf(&tb, "palette %d %d\n", e.c, e.v)
		if i > 0 {
			lb.WriteString(", ")
		}
		fmt.Fprintf(&lb, "(%d, %d)", e.c, e.v)
	}
	lb.WriteString("]\n\n/-- wscreen.go `curStyleClasses` -/\ndef wCursorClasses : List (Nat × String) := [")
	for i, e := range curs {
		fmt.Fprintf(&tb, "cursor %d %s\n", e.c, hexs(e.s))
		if i > 0 {
			lb.WriteString(", ")
		}
		fmt.Fprintf(&lb, "(%d, %s)", e.c, wLeanStr(e.s))
	}
	lb.WriteString("]\n\n/-- key.go `KeyNames` (Key value, name), sorted by value -/\ndef wKeyNames : List (Nat × String) := [\n")
	for i, e := range names {
		fmt.Fprintf(&tb, "keyname %d %s\n", e.v, hexs(e.k))
		sep := ","
		if i == len(names)-1 {
			sep = ""
		}
		fmt.Fprintf(&lb, "  (%d, %s)%s\n", e.v, wLeanStr(e.k), sep)
	}
	lb.WriteString("]\n\nend Tcell.Gen\n")
	writeFile(outDir+"/webkeys.txt", tb.String())
	writeFile(leanDir+"/Tcell/Gen/WebKeys.lean", lb.String())

	// ---- ColorValues for the driver (Color.Hex)
	var cb strings.Builder
	var cvs []pv
	for c, v := range tcell.ColorValues {
		cvs = append(cvs, pv{int64(c), int64(v)})
	}
	sort.Slice(cvs, func(i, j int) bool { return cvs[i].c < cvs[j].c })
	for _, e := range cvs {
		fmt.Fprintf(&cb, "%d %d\n", e.c, e.v)
	}
	writeFile(outDir+"/colorvalues.txt", cb.String())
	var clb strings.Builder
	clb.WriteString("-- GENERATED by harness/cmd/extract from tcell.ColorValues; do not edit.\nnamespace Tcell.Gen\n\n/-- color.go `ColorValues` (Color value, 24-bit RGB), sorted -/\ndef wColorValues : List (Nat × Int) := [\n")
	for i, e := range cvs {
		sep := ","
		if i == len(cvs)-1 {
			sep = ""
		}
		fmt.Fprintf(&clb, "  (%d, %d)%s\n", e.c, e.v, sep)
	}
	clb.WriteString("]\n\nend Tcell.Gen\n")
	writeFile(leanDir+"/Tcell/Gen/WColorValues.lean", clb.String())

	// ---- lock skeletons
	var mnames []string
	for n := range w.recv {
		mnames = append(mnames, n)
	}
	sort.Strings(mnames)
	var fb, flb strings.Builder
	flb.WriteString("-- GENERATED by harness/cmd/extract (go/ast walk of the *wScreen methods in wscreen.go); do not edit.\nimport Tcell.Model.WLock\nnamespace Tcell.Gen\nopen Tcell.WLock\n\n")
	flb.WriteString("/-- (method, lock skeleton) for every method with receiver *wScreen, sorted by name -/\ndef wLockFacts : List (String × Sk) := [\n")
	for i, n := range mnames {
		fd := w.recv[n]
		sk := ".nil"
		if fd.Body != nil {
			sk = w.block(fd.Body.List, recvName(fd), ".nil")
		}
		fmt.Fprintf(&fb, "%s %s\n", n, sk)
		sep := ","
		if i == len(mnames)-1 {
			sep = ""
		}
		fmt.Fprintf(&flb, "  (%s, %s)%s\n", wLeanStr(n), sk, sep)
	}
	flb.WriteString("]\n\n/-- (method, number of `select` statements in it, number of those that have a `default` clause — a select with a default\n    never waits), for every *wScreen method that contains a select -/\ndef wSelects : List (String × Nat × Nat) := [")
	first := true
	for _, n := range mnames {
		fd := w.recv[n]
		if fd.Body == nil {
			continue
		}
		sel, dflt := 0, 0
		ast.Inspect(fd.Body, func(nd ast.Node) bool {
			if ss, ok := nd.(*ast.SelectStmt); ok {
				sel++
				for _, c := range ss.Body.List {
					if cc, ok := c.(*ast.CommClause); ok && cc.Comm == nil {
						dflt++
					}
				}
			}
			return true
		})
		if sel > 0 {
			if !first {
				flb.WriteString(", ")
			}
			first = false
			fmt.Fprintf(&flb, "(%s, %d, %d)", wLeanStr(n), sel, dflt)
		}
	}
	flb.WriteString("]\n\nend Tcell.Gen\n")
	writeFile(outDir+"/wlockfacts.txt", fb.String())
	writeFile(leanDir+"/Tcell/Gen/WLockFacts.lean", flb.String())
	_ = os.Stderr
}

