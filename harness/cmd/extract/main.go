// extract is the translator: it regenerates, from the current /repo tree (linked in through the go.mod
// replace), the data the Lean development depends on.  Text tables go to <out>/ (read by the driver),
// Lean modules to <lean>/Tcell/Gen/ (re-checked by the kernel on the next `lake build`).
package main

import (
	"flag"
	"fmt"
	"os"
	"path/filepath"
)

var outDir, leanDir, repoDir string

func must(err error) {
	if err != nil {
		fmt.Fprintln(os.Stderr, "extract:", err)
		os.Exit(1)
	}
}

func writeFile(path, content string) {
	must(os.MkdirAll(filepath.Dir(path), 0o755))
	// only rewrite when changed, so lake's traces stay valid on an unchanged tree
	if old, err := os.ReadFile(path); err == nil && string(old) == content {
		return
	}
	must(os.WriteFile(path, []byte(content), 0o644))
}

func main() {
	flag.StringVar(&outDir, "out", "gen", "directory for text tables")
	flag.StringVar(&leanDir, "lean", "lean", "Lean project root")
	flag.StringVar(&repoDir, "repo", "/repo", "tcell source tree (for go/ast walks)")
	flag.Parse()
	genRuneWidth()
	genConsts()
	genTerminfo()
	genColors()
	genC14()
	genWScreen()
	genKeys()
	genLockFacts()
	genAcs()
	genParserMode()
}
