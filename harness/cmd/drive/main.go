// drive runs one engine of the correspondence harness against the real tcell code.
//
//	drive -engine cb -tier quick -seed 1 -out DIR            generate cases, execute, write files
//	drive -engine cb -replay FILE -out DIR                   execute the case lines of FILE instead
//
// Files written in DIR: cases.txt (one case per line, the replay format), impl.txt (the implementation's
// observation per case), findings.jsonl (oracle failures), stats.json (input distribution).
package main

import (
	"bufio"
	"encoding/json"
	"flag"
	"fmt"
	"hash/fnv"
	"os"
	"path/filepath"
	"runtime/debug"
	"strings"
	"time"

	_ "verif/harness/engines"
	"verif/harness/h"
)

type findingRec struct {
	Case  int    `json:"case"`
	Line  string `json:"line"`
	Class string `json:"class"`
	Msg   string `json:"msg"`
}

func execSafe(e *h.Engine, line string) (res h.Result) {
	defer func() {
		if p := recover(); p != nil {
			st := string(debug.Stack())
			// keep the first tcell frame for the message
			frame := ""
			for _, l := range strings.Split(st, "\n") {
				if strings.Contains(l, "gdamore/tcell") && !strings.Contains(l, "verif") {
					frame = strings.TrimSpace(l)
					break
				}
			}
			res = h.Result{Obs: "PANIC", Findings: []h.Finding{{Class: "panic", Msg: fmt.Sprintf("%v at %s", p, frame)}}, Nontrivial: true, Tags: []string{"panic"}}
		}
	}()
	return e.Exec(line)
}

func main() {
	engine := flag.String("engine", "", "engine name")
	tier := flag.String("tier", "quick", "quick|thorough")
	seed := flag.Uint64("seed", 1, "PRNG seed")
	out := flag.String("out", "", "output directory")
	replay := flag.String("replay", "", "file of case lines to execute instead of generating")
	corpus := flag.String("corpus", "", "corpus file of past minimised disagreements, run first")
	flag.Parse()
	e := h.Engines[*engine]
	if e == nil {
		fmt.Fprintln(os.Stderr, "unknown engine", *engine)
		os.Exit(2)
	}
	start := time.Now()
	var lines []string
	readLines := func(p string) {
		f, err := os.Open(p)
		if err != nil {
			return
		}
		defer f.Close()
		sc := bufio.NewScanner(f)
		sc.Buffer(make([]byte, 1<<20), 1<<26)
		for sc.Scan() {
			l := strings.TrimSpace(sc.Text())
			if l != "" && !strings.HasPrefix(l, "#") {
				lines = append(lines, l)
			}
		}
	}
	if *replay != "" {
		readLines(*replay)
	} else {
		if *corpus != "" {
			readLines(*corpus)
		}
		g := &h.Gen{R: h.NewRand(*seed), Tier: *tier}
		e.Gen(g)
		lines = append(lines, g.Lines...)
	}
	os.MkdirAll(*out, 0o755)
	fc, _ := os.Create(filepath.Join(*out, "cases.txt"))
	fi, _ := os.Create(filepath.Join(*out, "impl.txt"))
	ff, _ := os.Create(filepath.Join(*out, "findings.jsonl"))
	fd, _ := os.Create(filepath.Join(*out, "derived.txt"))
	wc, wi, wf, wd := bufio.NewWriter(fc), bufio.NewWriter(fi), bufio.NewWriter(ff), bufio.NewWriter(fd)
	tags := map[string]int{}
	distinct := map[uint64]bool{}
	nfind := 0
	for i, l := range lines {
		res := execSafe(e, l)
		fmt.Fprintln(wc, l)
		fmt.Fprintln(wi, res.Obs)
		for _, t := range res.Tags {
			tags[t]++
		}
		for _, d := range res.Derived {
			fmt.Fprintf(wd, "%d\t%s\n", i, d)
		}
		if res.Nontrivial {
			hh := fnv.New64a()
			hh.Write([]byte(l))
			distinct[hh.Sum64()] = true
		}
		for _, f := range res.Findings {
			nfind++
			b, _ := json.Marshal(findingRec{Case: i, Line: l, Class: f.Class, Msg: f.Msg})
			wf.Write(b)
			wf.WriteByte('\n')
		}
	}
	wc.Flush()
	wi.Flush()
	wf.Flush()
	wd.Flush()
	samples := lines
	if len(samples) > 3 {
		samples = []string{lines[0], lines[len(lines)/2], lines[len(lines)-1]}
	}
	for i, s := range samples {
		if len(s) > 600 {
			samples[i] = s[:600] + "…"
		}
	}
	st := map[string]interface{}{
		"engine": e.Name, "rule": e.Rule, "evaluations": len(lines), "distinct_nontrivial": len(distinct),
		"findings": nfind, "input_distribution": tags, "samples": samples, "wall_s": time.Since(start).Seconds(),
		"seed": *seed, "tier": *tier,
	}
	b, _ := json.MarshalIndent(st, "", " ")
	os.WriteFile(filepath.Join(*out, "stats.json"), b, 0o644)
}
