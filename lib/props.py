"""Per-property configuration of ./check: Lean modules holding the theorems, engines of the Go harness, trusted base."""

LEAN_TB = "Lean 4 kernel (lake build; leanchecker re-check in the thorough tier); axioms limited to propext, Classical.choice, Quot.sound (audited per theorem)"
CORR_TB = "correspondence harness (harness/cmd/drive + lean driver + line diff): sampling-based differential test of the hand-written Lean model against the real code"
TRANS_TB = "translator harness/cmd/extract (regenerates lean/Tcell/Gen and gen/ from the current tree on every run)"

PROPS = {
    "C08": dict(
        lean=["Tcell.Props.C08"], namespaces=["Tcell.Props.C08"], engines=["cb"],
        trusted_base=[LEAN_TB, CORR_TB, TRANS_TB,
                      "model of cell.go as a total function Int→Int→Cell (row-major indexing not mirrored; every access is range-guarded)",
                      "go-runewidth modelled as the regenerated range table"],
        assumptions=["runes are int32 values; Resize is called with non-negative sizes (Go panics otherwise)",
                     "a caller does not mutate the slice GetContent returns (documented aliasing)",
                     "Fill is used with width-1 runes for the reported-width clause (documented limitation of Fill)"],
    ),
}
