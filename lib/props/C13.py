from props import LEAN_TB, CORR_TB, TRANS_TB

PROP = dict(
    lean=["Tcell.Props.C13"], namespaces=["Tcell.Props.C13"], engines=["draw"],
    classes=["unchanged-cell-written", "locked-cell-overpainted", "ref-unavailable"],
    trusted_base=[LEAN_TB, CORR_TB, TRANS_TB,
                  "Layer A abstract terminal (ATerm.writes logs the cell every payload is addressed to); same model and correspondence as C01",
                  "Layer B: the same simulation as C01 (Props/C01B) relates ATerm.writes-carrying abstract terminals to the byte-level emulator (cells not addressed keep their emulator contents: Rep is preserved cell by cell); stamps themselves are not part of Rep",
                  "oracle: per-cell write stamps of the Lean ECMA-48 reference emulator fed with the implementation's bytes"],
    assumptions=["two drawCell variants are modelled (DrawCfg.guardLocked; default = Tcell.currentGuardsLockedNeighbour): the history theorems show_writes_only_dirty / idle_show / locked_never_addressed / unlock_repaints are proved for the pinned variant (hct : c.Plain), locked_never_painted_partial for the repaired variant (fixes/C13-wide-left-of-locked.patch); the correspondence follows the tree under test (harness probe lockGuardSuffix -> '+lg' on case lines)",
                 "same domain as C01 (no AttrInvalid styles, narrow Fill runes, entries without the corner trick for the theorems)",
                 "a Sync (clear screen) or a resize legitimately repaints everything, locked cells included"],
)
META = dict(
    technique="Lean 4 proof over all draw histories that every payload command of a Show is addressed to a cell that was dirty and visited (frame theorem), idle Show writes nothing, locked cells are never addressed + byte-exact correspondence + write stamps of the reference emulator",
    text="show_writes_only_dirty, idle_show_writes_nothing, locked_never_addressed, unlock_repaints (partial: Layer A, entries without the corner trick) are proved for every history. The refuted clause (a wide rune left of a locked cell paints over it) is proved as a witness and reproduced on the real code by the emulator's stamps; it is a listed known finding. For the repaired drawCell (guard on the locked neighbour + re-dirtying on unlock) locked_never_painted_partial (no payload of a draw pass, wide glyphs included, covers a locked cell; every history/state) and the refutation of the witness (wide_left_of_locked_kept_repaired, unlock_repaints_wide_repaired) are proved; the Layer-A invariant has not been carried to that variant yet.",
    note="Trusted as C01. 'Written' is judged by the reference emulator's per-cell stamps on the implementation's bytes.",
)
