from props import LEAN_TB, CORR_TB, TRANS_TB

PROP = dict(
    lean=["Tcell.Props.C07"], namespaces=["Tcell.Props.C07"], engines=["tparm"],
    trusted_base=[LEAN_TB, CORR_TB, TRANS_TB,
                  "reference semantics lean/Tcell/Spec/Terminfo5.lean (lexer, parser, AST evaluator written from terminfo(5); cross-checked against the system ncurses via python curses.tparm in the thorough tier, as validation only)",
                  "Go fmt.Sprintf / strconv.Atoi / strconv.Itoa as modelled in Tcell.Model.TParm (formats with two dots, width/precision > 99999 and rune-counted padding of non-ASCII strings are not modelled and not compared)",
                  "conventions where terminfo(5) is silent: empty-stack pop = 0/\"\"; absent parameter = 0/\"\"; number<->string by decimal conversion; variables keep the string form; 64-bit integers"],
    assumptions=["parameters are Go int or string values (what tcell passes); other dynamic types behave like an absent parameter",
                 "printf conversions are judged only where C printf(3) defines the result independently of the C int width (non-negative o/x/X, no '+'/' ' on unsigned conversions, '#' on non-zero values, %c of 0..127, ASCII strings under width/precision)"],
)
META = dict(
    technique="Lean 4 proof (refinement of a structural terminfo(5) AST evaluator by the byte-level skip-register machine) + differential correspondence with Terminfo.TParm + reference oracle in Lean",
    text="Tcell.Props.C07 proves: the machine halts within its input length on arbitrary bytes (no hang, total), every parameterized string of the regenerated database and the strings tscreen.go hard-codes is well-formed and uses only the parameters tcell supplies (kernel evaluation), the pinned code refines the terminfo(5) reference for every program without a conditional nested inside a conditional (partial), fails on a nested one (witness by decide, reproduced on the Go code as a finding), and the repaired machine is stated at full strength. The model is tied to terminfo.go by running database strings, grammar-generated programs and random bytes on both.",
    note="Trusted: Lean kernel, model<->code correspondence (sampled), the reference evaluator (cross-checked with ncurses). Findings on the pinned tree: nested conditional in a skipped branch, %A/%O unsupported, '#'/' ' flag without colon.",
)
