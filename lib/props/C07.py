from props import LEAN_TB, CORR_TB, TRANS_TB

PROP = dict(
    lean=["Tcell.Props.C07"], namespaces=["Tcell.Props.C07"], engines=["tparm"],
    trusted_base=[LEAN_TB, CORR_TB, TRANS_TB,
                  "reference semantics lean/Tcell/Spec/Terminfo5.lean (lexer, parser, AST evaluator written from terminfo(5); spot-checked by hand against the system ncurses via python curses.tparm on the three finding witnesses and on division/modulo/printf corner cases; not part of any proof)",
                  "Go fmt.Sprintf / strconv.Atoi / strconv.Itoa as modelled in Tcell.Model.TParm (formats with two dots, width/precision > 99999 and rune-counted padding of non-ASCII strings are not modelled and not compared)",
                  "conventions where terminfo(5) is silent: empty-stack pop = 0/\"\"; absent parameter = 0/\"\"; number<->string by decimal conversion; variables keep the string form; 64-bit integers"],
    assumptions=["parameters are Go int or string values (what tcell passes); other dynamic types behave like an absent parameter",
                 "printf conversions are judged only where C printf(3) defines the result independently of the C int width (non-negative o/x/X, no '+'/' ' on unsigned conversions, '#' on non-zero values, %c of 0..127, ASCII strings under width/precision)"],
)
META = dict(
    technique="Lean 4 proof (refinement of a structural terminfo(5) AST evaluator by the byte-level skip-register machine) + differential correspondence with Terminfo.TParm + reference oracle in Lean",
    text="Tcell.Props.C07 proves: the machine halts within its input length on arbitrary bytes (no hang, total), every parameterized string of the regenerated database and the strings tscreen.go hard-codes is well-formed and uses only the parameters tcell supplies (kernel evaluation), the pinned and the repaired machine compute exactly the terminfo(5) reference on every straight-line program built from the tokens other than %{n}/printf/%A/%O (partial refinement; conditionals, %{n} and printf are covered by the correspondence and the reference oracle only), the pinned code fails on a nested conditional, on %A/%O and on '#'/' ' flags without a colon (witnesses by decide, each reproduced on the Go code as a finding, each repaired by a patch under fixes/ whose model variant is proved to give the reference answer on the witness). The model is tied to terminfo.go by running database strings, grammar-generated programs and random bytes on both.",
    note="Trusted: Lean kernel, model<->code correspondence (sampled), the reference evaluator (spot-checked against ncurses). Findings on the pinned tree: nested conditional in a skipped branch, %A/%O unsupported, '#'/' ' flag without colon.",
)
