from props import LEAN_TB, CORR_TB, TRANS_TB

PROP = dict(
    lean=["Tcell.Props.C01", "Tcell.Props.C01B"], namespaces=["Tcell.Props.C01", "Tcell.Props.C01B", "Tcell.LayerB"], engines=["draw"], classes=["display-", "cursor-", "wide-not-two-columns", "ref-unavailable"],
    trusted_base=[LEAN_TB, CORR_TB, TRANS_TB,
                  "Layer A: abstract terminal Tcell.ATerm (deferred wrap, two-column glyphs, clobbering rules) as the meaning of the draw path's abstract commands",
                  "Layer B (bytes -> abstract commands): PROVED as a simulation (Props/C01B, Lemmas/LayerB*): Rep(emulator, ATerm) is preserved by feeding Render.renderAll of every command list of every history (sim_all, draw_admits, rep_reach), for all positions, runes (UTF-8, wide, combining), sizes; relative to CapsFx = the effect on the Lean ECMA-48 emulator of the bytes of each command kind. For the class XtermLike (22 DB entries, db_xtermlike) CapsFx is proved for cursor addressing (all positions), cursor hiding, sgr0 (7 forms), the whole style block for styles without colours/underline (xl_setPen_attrs_effect), each single attribute/underline/reset string and the closed forms of every parameterised expansion for all parameter values; the assembly of colours and underline inside setPen and of the showCursor / clear byte strings into their effect is still validated only (byte-exact correspondence + the reference emulator judging the implementation's own bytes)",
                  "Layer B starts from an emulator state with the parser in ground state (the bytes of Init/engage are validated by C04, not part of the theorem)",
                  "go-runewidth as regenerated table; encodeRune payload as a parameter (UTF-8 instance)"],
    assumptions=["styles passed by the application do not carry the internal AttrInvalid bit", "Fill is used with width-1 runes",
                 "the four corner-trick entries (beterm, cygwin, sun, sun-color) are covered by the correspondence and the emulator oracle only",
                 "StyleDefault cells are resolved with the screen style in force when they were painted",
                 "Layer B domain (OpB, CfgB): no hyperlink in styles, no cursor-colour request, combining runes zero-width non-control scalars, window sizes non-negative Go ints, UTF-8 locale, a hide-cursor string; rune widths outside int32 taken as 0 (rwClip)"],
)
META = dict(
    technique="Lean 4 proof of a cross-Show invariant over all draw histories on an abstract terminal (Layer A) + byte-exact model/implementation correspondence + reference ECMA-48 emulator (Lean) judging the implementation's bytes",
    text="Theorems show_faithful/sync_faithful/resize_faithful (partial: Layer A, entries without the bottom-right insert-character trick) prove for every history, size, rune and style that after Show/Sync/resize every unlocked cell of the abstract terminal shows what the application last set, with the cursor where requested. Layer B (show_faithful_bytes_partial, sync_faithful_bytes_partial, output_wellformed_partial) transports this to the byte-level Lean ECMA-48 emulator fed with exactly the bytes the model renders: its grid shows the payload and the SGR state penOf(style) in every unlocked visited cell, relative to the per-command-kind effect hypotheses CapsFx (partly proved for the 22 XtermLike entries). The model is tied to tscreen.go by comparing the bytes of every Show; the oracle replays the implementation's bytes into the Lean ECMA-48 emulator and compares its grid with a shadow of the application's calls.",
    note="Trusted: Lean kernel, the emulator as the meaning of 'standards-conforming terminal', sampled correspondence. Layer B is a theorem modulo CapsFx.pen/show_/clear (assembly of the style block), hyperlinks and cursor colours.",
)
