from props import LEAN_TB, CORR_TB, TRANS_TB

PROP = dict(
    lean=["Tcell.Props.C01"], namespaces=["Tcell.Props.C01"], engines=["draw"], classes=["display-", "cursor-", "wide-not-two-columns", "ref-unavailable"],
    trusted_base=[LEAN_TB, CORR_TB, TRANS_TB,
                  "Layer A: abstract terminal Tcell.ATerm (deferred wrap, two-column glyphs, clobbering rules) as the meaning of the draw path's abstract commands",
                  "Layer B (bytes -> abstract commands) is validated, not proved: byte-exact correspondence of the rendered model with the implementation, and the Lean ECMA-48 reference emulator judging the implementation's own bytes",
                  "go-runewidth as regenerated table; encodeRune payload as a parameter (UTF-8 instance)"],
    assumptions=["styles passed by the application do not carry the internal AttrInvalid bit", "Fill is used with width-1 runes",
                 "the four corner-trick entries (beterm, cygwin, sun, sun-color) are covered by the correspondence and the emulator oracle only",
                 "StyleDefault cells are resolved with the screen style in force when they were painted"],
)
META = dict(
    technique="Lean 4 proof of a cross-Show invariant over all draw histories on an abstract terminal (Layer A) + byte-exact model/implementation correspondence + reference ECMA-48 emulator (Lean) judging the implementation's bytes",
    text="Theorems show_faithful/sync_faithful/resize_faithful (partial: Layer A, entries without the bottom-right insert-character trick) prove for every history, size, rune and style that after Show/Sync/resize every unlocked cell of the abstract terminal shows what the application last set, with the cursor where requested. The model is tied to tscreen.go by comparing the bytes of every Show; the oracle replays the implementation's bytes into the Lean ECMA-48 emulator and compares its grid with a shadow of the application's calls.",
    note="Trusted: Lean kernel, ATerm conventions, the emulator as the meaning of 'standards-conforming terminal', sampled correspondence. Layer B is not a theorem.",
)
