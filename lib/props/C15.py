from props import LEAN_TB, CORR_TB, TRANS_TB

PROP = dict(
    lean=["Tcell.Props.C15"], namespaces=["Tcell.Props.C15"], engines=["tputs", "tgoto", "tcolor"],
    trusted_base=[LEAN_TB, CORR_TB, TRANS_TB,
                  "references in lean/Tcell/Spec/TermCaps.lean: padding grammar $<n[.m][*/]*>, cursor-address decoders per convention (ANSI CUP, VT52 ESC Y, Wyse ESC =, HP ESC &a) chosen by terminal name, SGR colour-selection decoder",
                  "sleeping is observed only as wall-clock bounds on a few timed cases in the thorough tier"],
    assumptions=["delays are not part of the compared observation (model records them; Go sleeps)",
                 "cursor positions judged are those the convention can express (offset-32 conventions: row, col < 224)"],
)
META = dict(
    technique="Lean 4 proof (TPuts output = stripPadding; symbolic closed forms of every distinct cursor-address and colour program of the database; decoder round trips) + differential correspondence + decoders as oracle",
    text="Tcell.Props.C15 proves for the TPuts model: strings without $< are written unchanged and equal stripPadding (partial tputs_spec), an unterminated $< is written verbatim, no delay is ever taken without a pad character, and the pinned code strips the non-padding $<x> (witness by decide; the repaired variant keeps it); closed forms for every distinct SetCursor program of the regenerated database for all rows and columns (64-bit), membership of every entry's program in that list and agreement with the convention its name implies by kernel evaluation, decoder round trips on boundary positions; TColor folding/elision and closed forms of the basic and the 256-colour setaf programs. The models are tied to terminfo.go by differential runs over padding strings, all entries x positions, all entries x colours; per-family decoders judge the real output.",
    note="Trusted: Lean kernel, correspondence (sampled; exhaustive over 0..300^2 positions in the thorough tier), the decoders. Finding on the pinned tree: TPuts strips $<...> whose content is not a padding specification.",
)
