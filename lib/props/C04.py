from props import LEAN_TB, CORR_TB, TRANS_TB

PROP = dict(
    lean=["Tcell.Props.C04"], namespaces=["Tcell.Props.C04"], engines=["modes"],
    classes=["mode-left-on:", "resume-missing:", "resume-extra:", "tty-order:", "hang:", "panic:", "ref-unavailable"],
    trusted_base=[LEAN_TB, CORR_TB, TRANS_TB],
    assumptions=[],
)
META = dict(technique="wip", text="wip", note="wip")
