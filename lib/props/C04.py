from props import LEAN_TB, CORR_TB, TRANS_TB

PROP = dict(
    lean=["Tcell.Props.C04", "Tcell.Props.C04B"], namespaces=["Tcell.Props.C04", "Tcell.ModesA"], engines=["modes"],
    classes=["mode-left-on:", "resume-missing:", "resume-extra:", "tty-order:", "hang:", "panic:", "ref-unavailable"],
    trusted_base=[LEAN_TB, CORR_TB, TRANS_TB,
                  "Layer A: the abstract register file Tcell.ModesA.Regs and the meaning of each capability / draw command on it (Comp components); sound over-approximation for SGR state and hyperlink",
                  "Layer B is proved per string on three start states per entry by kernel evaluation on the Lean ECMA-48 reference emulator (layerB_samples_partial); the composition over histories is validated by the engine: byte- and call-log-exact tie of the model with tscreen.go, and the emulator judging the implementation's own bytes",
                  "FakeTty (harness/engines/faketty.go) as the observer of the Tty call order; the reference emulator as the meaning of 'terminal mode register'"],
    assumptions=["histories never call Resume after Fini (a finished screen must not be reused; Fini is once-only, see theorem resume_after_fini_stays_engaged)",
                 "window-size notifications (SIGWINCH through mainLoop) and input are not part of the mode histories (quiet resizes are)",
                 "the user's terminal starts in its default state; titles are compared as byte strings",
                 "ECMA-48-family entries only (cup is a CSI sequence): 45 of the 49 built-in descriptions"],
)
META = dict(
    technique="Lean 4 proof over all histories of a state-machine model of engage/disengage/finalize and the mode API (Layer A: abstract terminal registers, every terminal description in the abstract, TCELL_ALTSCREEN either way) + per-string kernel evaluation on the ECMA-48 reference emulator for all 45 ECMA-family entries (Layer B) + byte- and call-log-exact model/implementation correspondence on a fake Tty + the emulator's mode registers and a call-log grammar as oracle on the implementation's own output",
    text="modes_restored (every history of mode, draw, Suspend/Resume calls ending in Suspend or Fini leaves every abstract register at its default, title stack balanced, saved title restored), resume_reapplies (after Resume exactly the last requested mouse/paste/focus modes are on, alt screen/keypad/hidden cursor re-entered, title re-set), tty_order (Start/Drain/NotifyResize(nil)/Stop/Close automaton never violated, any history), teardown_writes_before_stop, stopped_is_quiet, close_only_in_fini; db_paired (every ECMA entry has the off-string for each on-string); layerB_samples_partial. The refuted clause (hyperlink left open by the pinned disengage) is proved as hyperlink_left_open, reproduced on the real code by the oracle (known finding C04-hyperlink-left-open, repair fixes/C04-exit-url.patch).",
    note="Trusted: Lean kernel, the reference emulator as the meaning of the control strings, FakeTty, sampled correspondence. Layer B composition over histories is validated, not proved.",
)
