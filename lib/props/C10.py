"""C10 — concurrent use of one Screen is free of data races (proof about an extracted model; partial)."""
import json, os
from props import LEAN_TB, CORR_TB, TRANS_TB


def lockfacts_hook(ctx):
    """Cross-checks of the extraction that need the whole run: translator warnings, entry-point/field coverage, and
    direction (a) in aggregate — every flagged public entry point must have been reproduced by the race detector
    somewhere in this run (per-line it is already enforced through the `expect …` correspondence)."""
    res = {"engine": "lockfacts", "findings": [], "disagreements": [], "stats": {"evaluations": 0, "distinct_nontrivial": 0, "rule": "facts regenerated from the source; flagged entry points vs race-detector reproductions"}}
    p = os.path.join(ctx["root"], "gen", "lockfacts.txt")
    if not os.path.exists(p):
        res["broken"] = {"kind": "translator", "detail": "gen/lockfacts.txt missing"}
        return res
    flagged, warnings, impls, nfacts, untouched = {}, [], [], 0, []
    kinds, mutexes, guards = {}, [], {}
    for l in open(p):
        t = l.split()
        if not t:
            continue
        if t[0] == "impl":
            impls.append(" ".join(t[1:]))
            kv = dict(x.split("=") for x in t[2:])
            if kv.get("interface_methods") != kv.get("resolved") or kv.get("interface_methods") in (None, "0"):
                warnings.append("interface methods not all resolved: " + l.strip())
        elif t[0] == "entry":
            kinds[t[1] + "/" + t[2]] = t[3]
        elif t[0] == "fact":
            nfacts += 1
        elif t[0] == "flagged":
            flagged.setdefault(t[1] + "/" + t[2], set()).add(t[3])
        elif t[0] == "warning":
            warnings.append(" ".join(t[1:]))
        elif t[0] == "mutex":
            mutexes.append(t[2] + "/" + t[3])
        elif t[0] == "field":
            if t[4] == "untouched" and t[3] != "sync":
                untouched.append(t[1] + "/" + t[2])
            g = [x[6:] for x in t if x.startswith("guard=")]
            if g and g[0] not in ("-", "Mutex"):
                guards[t[1] + "/" + t[2]] = g[0]  # fields guarded by another mutex than the screen lock ("!m": no common mutex)
    res["stats"]["evaluations"] = nfacts
    extra = {"impls": impls, "facts": nfacts, "mutexes": mutexes, "fields_not_guarded_by_the_screen_mutex": guards,
             "discipline_variant": "full (flagged list empty: discipline_tree / fields_race_free_tree give the unconditional statements)" if not flagged
                                   else "partial (discipline_except_disengage; flagged entry points must be reproduced by the race detector)",
             "flagged": {k: sorted(v) for k, v in sorted(flagged.items())},
             "untouched_fields": untouched, "translator_warnings": warnings}
    if warnings:
        res["broken"] = {"kind": "translator", "detail": warnings[:10]}
    # aggregate reproduction table from the race engine's run directory (absent in --replay runs)
    rundir = os.path.join(ctx["build"], "run", f"{ctx['pid']}-race-{ctx['tier']}-{ctx['seed']}")
    fpath = os.path.join(rundir, "findings.jsonl")
    if os.path.exists(fpath) and os.path.exists(os.path.join(rundir, "cases.txt")):
        ncases = sum(1 for _ in open(os.path.join(rundir, "cases.txt")))
        seen = set()
        for l in open(fpath):
            try:
                seen.add(json.loads(l)["class"])
            except Exception:
                pass  # a truncated last line when the drive process was killed: the harness-run obligation reports that
        extra["race_classes_seen"] = sorted(seen)
        missing = []
        for k in sorted(flagged):
            if kinds.get(k) != "api":
                continue
            impl, e = k.split("/")
            names = {"race-" + e, "race-sim-" + e} | ({"race-disengage-tail"} if e in ("Suspend", "Fini") else set())
            if not (names & seen):
                missing.append(k)
        extra["flagged_not_reproduced"] = missing
        if missing and ncases > 3 and not res.get("broken"):
            res["broken"] = {"kind": "correspondence", "engine": "race", "count": len(missing),
                             "detail": "flagged by the discipline check but never reproduced by the race detector in this run (extraction false alarm?): " + ", ".join(missing)}
    res["stats"]["extra"] = extra
    return res


PROP = dict(
    level="proof",
    lean=["Tcell.Props.C10", "Tcell.AuditLib"], namespaces=["Tcell.Props.C10"], engines=["race"], extra=[lockfacts_hook],
    trusted_base=[LEAN_TB, TRANS_TB,
                  "lock-fact translator harness/cmd/extract/lockfacts.go (go/ast flow walk, helper methods inlined): the theorems are about the EXTRACTED facts; it is validated both ways by the Go race detector (every flagged entry point must be reproduced, no report may hit a field the facts call safe)",
                  "Go memory model axiomatised: the mutexes (the embedded screen mutex and every named sync.Mutex field, each exclusive and non-reentrant) are the only ordering in the concurrent phase; go-statement / channel / WaitGroup / Once happens-before enter only through the phase classification of the facts (init phase, after wg.Wait, one live instance of mainLoop/inputLoop)",
                  "Go race detector (-race) and the harness tty's probe counter standing for the output stream"],
    assumptions=["Init returns before the Screen is shared with other goroutines (accesses in the constructor and in Init before engage are not concurrent)",
                 "transform.Transformer Reset/Transform mutate the transformer (interface contract) — modelled as the pseudo-field encoder.state/decoder.state",
                 "the Tty implementation is itself safe for one concurrent Read and Write (FakeTty is)",
                 "the evaluator methods of the shared *terminfo.Terminfo (t.ti.TParm / TGoto / TColor / TPuts) may keep scratch space or variables per entry or per process — modelled as writes of the pseudo-field ti.eval, which the discipline requires under the screen lock (all of them are on the tree as it is); engine race always runs SetClipboard against Show / Sync / SetTitle / SetSize / GetClipboard on the XTermLike entry obtained through LookupTerminfo and attributes a race inside package terminfo through the tscreen.go call site"],
)
META = dict(
    technique="Lean 4 lockset theorem for any number of mutexes (generic over thread counts and schedules) + kernel-evaluated discipline check (for every field the lock sets of its accesses have a common mutex) over lock facts regenerated from the source by a go/ast translator; Go race detector validates the extraction both ways and is the oracle on the real code",
    text="PARTIAL (proof about an extracted model). Tcell.Props.C10 proves lockset_sound_multi (threads take/release any number of exclusive mutexes; if ONE mutex m is held at every access to field f, no reachable state of any number of threads, any schedule, has a race on f), clean_field_race_free / clean_fields_race_free (instantiated on the regenerated facts, which carry the SET of mutexes held at each access, for every field no flagged fact mentions), blocks_contiguous (emissions guarded by the screen mutex ⇒ each critical section's output is one contiguous run of the tty stream, whatever other mutexes the threads use) and show_block_shape; exempt_exact / guards_exact / flagged_exact make the kernel recompute the field classification, the guard mutex of every field (a mutex in the intersection of the lock sets of its concurrent-phase accesses) and the list of violating facts. Two variants of the tree, decided by the kernel from the regenerated facts (discipline_tree, fields_race_free_tree): pinned tree — discipline_except_disengage (every fact of every entry point other than tscreen/Fini and tscreen/Suspend; flagged_only_disengage: the flagged list is exactly the unlocked tail of disengage incl. wg.Wait — findings C10-disengage-tail / C10-loops-overlap); tree with fixes/C10-disengage-lifecycle.patch (mutex `lifecycle` held for the whole of engage/disengage, tail of disengage under the screen lock) — nothing is flagged, discipline holds for EVERY fact and fields_race_free_tree for EVERY field that needs protection (wg.state is guarded by lifecycle: wg.Add holds {lifecycle, screen}, wg.Wait {lifecycle}; wg.Done is pure synchronisation). Engine `race` reproduces each flagged entry point under `go build -race` with input/resize traffic, partners chosen by disjoint lock sets (and reports any race the facts do not predict), always runs the lifecycle pairs Suspend/Resume/Fini/Init against each other with a watchdog (a call that never returns: lifecycle-deadlock), and checks that every tty write during concurrent Sync+X is a whole block.",
    note="Partial: Go's memory model is axiomatised in the thread semantics (mutexes are the only ordering; go/channel/WaitGroup.Done→Wait/Once edges enter through the phase classification and the one-live-instance axiom for mainLoop/inputLoop, which the lifecycle mutex of the fix makes true), the facts are as good as the translator (cross-checked by the race detector in both directions, sampled schedules). Trusted: Lean kernel, translator, race detector.",
)
