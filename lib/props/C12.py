from props import LEAN_TB, CORR_TB, TRANS_TB

PROP = dict(
    lean=["Tcell.Props.C12"], namespaces=["Tcell.Props.C12"], engines=["parse", "pipemouse"],
    trusted_base=[LEAN_TB, CORR_TB, TRANS_TB,
                  "hand-written model of the input parser (lean/Tcell/Model/Parser.lean, tscreen.go:1295-1812), tied to the code by the `parse` engine through tcell.VerifParser.Feed; the theorems quantify over every Cfg, i.e. hold for the pinned and the strict (fixes/C02-sgr-strict.patch, +sgrfix) SGR loop",
                  "Spec/XtermMouse.lean is a reading of xterm ctlseqs (Mouse Tracking) and of the property text (held-button rule)",
                  "Go int modelled as 64-bit two's complement (wrap64)",
                  "engine `pipemouse` (harness/sched under the schedule controller, xterm-256color, the whole input pipeline of a live screen): a press report, then EnableMouse / DisableMouse calls with other flags, then drag reports, the release and a buttonless motion must come out with the button held / dropped as the reports say (class mouse-button-state-lost); the schedule trace is replayed by the Lean pipeline model as for C05"],
    assumptions=["reported numbers fit a Go int (|b|,|x|,|y| < 2^63)", "the screen has at least one cell",
                 "the 8-bit CSI introducer 0x9B is recognised only where the locale's decoder does not claim that byte (UTF-8)",
                 "a stream is in one mouse protocol at a time (the oracle forgets the held state when SGR and X11 reports are mixed)"],
)
META = dict(
    technique="Lean 4 proof about a model of the tscreen.go input parser against an independent xterm mouse-protocol specification + differential correspondence through the verif parser hook",
    text="Tcell.Props.C12 proves, for every button code, coordinate (any sign, any number of digits), final and introducer, that an SGR report decodes to exactly one event with the specified position, modifiers and buttons, and that arbitrary report sequences follow the press/drag/release machine (release and unheld motion buttonless, drag keeps the button). For legacy X11 reports it proves exactly which codes the pinned tree decodes wrongly (motion 32..63: drag reported as wheel / right-drag loses its button) and that the repaired variant satisfies the specification. The engine `parse` feeds all 256 codes x finals x introducers x coordinate classes, all X11 button bytes, random report sequences and mixed token strings (whole and partitioned) to the real parser and to the model, and an independent Go decoder checks the statement on the real events; streams in which a report is preceded by lone ESC bytes (Esc key / Alt prefix typed just before: same read, a read of its own, boundary inside the report; no timeout in between) are generated too and their mouse events judged the same way — the modifiers are the report's own bits — while what becomes of the ESC is left to C02/C03. hwheel_not_a_button: a wheel-left/right report (xterm codes 66/67, any modifiers and press state) yields no button; the oracle demands that such a report claims none of the statement's five masks (class mouse-hwheel-misreported).",
    note="Finding: X11 motion reports (x11-motion-as-wheel, x11-drag-loses-button); fix in fixes/C12-x11-offset.patch.",
)
