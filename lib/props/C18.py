from props import LEAN_TB, CORR_TB, TRANS_TB

PROP = dict(
    lean=["Tcell.Props.C18"], namespaces=["Tcell.Props.C18", "Tcell.SimL"], engines=["sim"],
    trusted_base=[LEAN_TB, CORR_TB, TRANS_TB,
                  "external charset encoders/decoders are parameters (`enc`, `dec`); the codec laws `CharLaw` behind inject_bytes_text are hypotheses, exercised by the harness on every multi-byte BMP character of 12 charsets (thorough) through the real decoders",
                  "the event channel is modelled as a FIFO list; a post on a full queue (capacity 10) is a precondition violation, the harness keeps a poller running",
                  "CellBuffer model of C08; go-runewidth as regenerated table; front buffer as a total function (row-major indexing not mirrored, every access is range-guarded)"],
    assumptions=["SetSize is called with non-negative sizes (Go panics otherwise)",
                 "a clean cell is not redrawn when only the screen style or a fallback registration changed (same on a real screen): the oracle accepts the style/fallback in effect at any Show since the cell was last set",
                 "cells covered by a wide rune on their left are not visible and not judged",
                 "InjectKey with KeyRune and a control rune is normalised by NewEventKey (documented): compared with the model, not judged"],
)
META = dict(
    technique="Lean 4 proof about a model of simulation.go over the C08 buffer, generic in encoder/decoder + differential correspondence of histories on NewSimulationScreen + shadow oracle of what the application set",
    text="Tcell.Props.C18 proves: what a drawn cell reports (runes, resolved style, blank for a wide rune in the last column, Bytes) and that no other cell changes; that the repaired Bytes rules coincide with the real screen's encodeCell (counterexample for the pinned rules); SetSize overlap and (repaired) resize event, with the proof that the pinned SetSize never produces one; the cursor query; FIFO delivery of injected keys/mouse; and, under explicit codec laws, that any valid text injected with the repaired InjectKeyBytes yields one KeyRune per character in order and true (counterexamples for the pinned loop: last non-ASCII character dropped, legacy multi-byte characters consumed silently). The full after-Show invariant is proved over draw histories (sim_show_faithful: after ANY history of SetContent/Fill/LockRegion steps/Show/Sync/SetSize/cursor/inject operations from Init, every in-range unlocked clean cell's reported cell equals render of its logical content; sim_shown_cells_faithful: after Show this holds for every position the draw walk stops at, i.e. every cell not hidden behind a wide rune; sim_show_frame) by induction reusing the C08 specification ghost, for every variant with the last-column (829ffac) and SetSize (3535525) fixes — the variant of the current tree; it is refuted for the pinned variant by last_column_stale. Hypotheses: RwOk (rune widths 0..2, NUL 0, blank 1), Fill runes one column wide (API contract), screen style and fallback map fixed along the history (SetStyle/RegisterRuneFallback are not retroactive: setStyle_not_retroactive).",
    note="Trusted: Lean kernel, sampled correspondence, codec laws as validated hypotheses. Former findings, all fixed in /repo (7f13d60, 3535525, 829ffac, 56f48b2): inject-last-multibyte, inject-multibyte-dropped, setsize-no-resize-event, sim-last-column-stale, sim-comb-fallback-not-elided.",
)
