from props import LEAN_TB, CORR_TB

PROP = dict(
    lean=["Tcell.Props.C20"], namespaces=["Tcell.Props.C20"], engines=["vp", "box"],
    trusted_base=[LEAN_TB, CORR_TB,
                  "hand-written models of views/view.go (ViewPort record) and of hLayout/vLayout (generic in the number type); Lean `Float` = IEEE binary64 = Go float64 for + * / - conversion and truncation in the value ranges used (compared bit for bit by the box engine)",
                  "the theorems about the share computation are about the exact (Rat) instance; the gap to float64 rounding is not proved, it is monitored by the oracle on the real code (proportionality with a 1e-9 relative tolerance, exact sum)"],
    assumptions=["Go int does not overflow (models use unbounded Int)",
                 "widgets report non-negative preferred sizes, fill factors are finite and non-negative with a finite sum, the layout's view has non-negative size",
                 "a widget is attached to at most one BoxLayout at a time and never below itself (Go recurses forever on a cycle)",
                 "ViewPort.Resize is not one of the clamping operations named by the property (it does not re-validate the offsets); Resize with an out-of-range origin keeps the old origin but computes the size from the requested one (outside the statement)"],
)
META = dict(
    technique="Lean 4 proof (ViewPort arithmetic over all states; BoxLayout share computation over exact rationals, generic in the number type) + differential correspondence of ViewPort and BoxLayout-tree models with views/ under op histories, recording parent View / recording child widgets as oracle",
    text="Theorems in Tcell.Props.C20 prove, for every ViewPort state and argument, containment and translation of forwarded SetContent/Fill calls, clamping after every scrolling/centring/make-visible/SetSize/SetContentSize from any prior state, monotone auto-grow and that MakeVisible makes the cell visible; for every child list, that the BoxLayout rectangles are ordered, disjoint, inside the view, at least the preferred extent when space suffices, and that the surplus is distributed exactly (pads_total) and in proportion to the fill factors cell for cell (pads_proportional, full strength: floor(share_i) <= pad_i <= floor(share_i)+1 and |pad_i - share_i| < 1, i.e. the largest-remainder pass never picks a cell twice; exact arithmetic). The models are tied to views/view.go and views/boxlayout.go by random op histories compared observation by observation (Float instance bit-exact with float64); a Go oracle written from the property text checks the statement on the real code.",
    note="Trusted: Lean kernel, sampled model-code correspondence, float64 vs exact arithmetic gap (monitored, not proved).",
)
