from props import LEAN_TB, CORR_TB, TRANS_TB

PROP = dict(
    lean=["Tcell.Props.C03"], namespaces=["Tcell.Props.C03"], engines=["keytable", "keyseq"],
    trusted_base=[LEAN_TB, CORR_TB, TRANS_TB,
                  "Gen/Keys.lean: key table of every entry dumped from tcell.VerifKeyTable (the real constructor) on every run; Gen/TerminfoDB.lean: the entries' fields",
                  "model of prepareKeys (lean/Tcell/Model/Keys.lean) compared exhaustively with the real tables by the `keytable` engine",
                  "the meaning of a key capability is read off its field name (KeyShfLeft = Left+Shift …); F13..F63 aliases per the terminfo/xterm convention"],
    assumptions=["sequences start with a control byte (ESC or C0); a sequence starting with a printable byte is taken by parseRune first (only the DEL byte occurs in the database and the statement names it)",
                 "Alt-prefix and lone-ESC clauses are about the state after the escape timeout"],
)
META = dict(
    technique="Lean 4 proof: generic lemmas over prefix-free key tables + kernel evaluation over the regenerated terminal database and the regenerated built key tables; exhaustive model/implementation comparison of the tables; per-sequence oracle through the verif parser hook",
    text="Generic theorems (any prefix-free table): key_decodes, unique_match (no dependence on map order), concat_decodes, ctrl_bytes, alt_prefix, lone_esc, del_is_backspace2. Database theorems re-checked by the kernel on every run for all 49 entries: prefix-freeness via a sorted-adjacent certificate, EVERY Key* capability string an entry defines (all fields of terminfo.Terminfo: specCaps_complete against the regenerated field list) is in the table with a key the description assigns (db_keys_decode, full strength since fix bca46fc; aliases as base+modifiers; the Meta/Alt/..Shf fields prepareKeys does not read are defined by no built-in entry: db_unread_caps_undefined), xterm modifier parameters 2..16 for the 22 keys, control bytes, and that no key shadows a mouse report. Engines: `keytable` (exhaustive equality of Lean buildKeys with the real table for every name) and `keyseq` (every capability/table sequence, modifier forms, control bytes, ESC, DEL, Alt prefix, pairs fed to the real parser and judged by an oracle computed from the entry fields).",
    note="Former finding (fixed by bca46fc): prepareKeys ignored KeyClear/KeyShfInsert/KeyShfDelete (key-capability-ignored).",
)
