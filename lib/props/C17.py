from props import LEAN_TB, CORR_TB, TRANS_TB

PROP = dict(
    lean=["Tcell.Props.C17"], namespaces=["Tcell.Props.C17"], engines=["acs", "enc"],
    trusted_base=[LEAN_TB, CORR_TB, TRANS_TB,
                  "external charset encoders/decoders (golang.org/x/text, gdamore/encoding) are parameters of the model: `enc r` is what encoder.Transform reports; the harness calls the same library directly and passes the values on the case line",
                  "go-runewidth modelled as the regenerated range table; vtACSNames / RuneFallbacks / the terminfo database regenerated into lean/Tcell/Gen on every run",
                  "the payload of a cell is located in the Show block by comparing with two reference draws at the same column (FakeTty)"],
    assumptions=["runes are Unicode scalar values (surrogates and out-of-range values are drawn and compared with the model but not judged by the oracle)",
                 "registered fallback strings have the display width of the rune they replace (otherwise no string could occupy the cell's width)",
                 "runes whose library encoding does not decode back to them (x/text GB18030 private-use mappings) get no oracle verdict",
                 "the VT100-only ACS names b c d e (not defined by terminfo(5)) get no oracle verdict"],
)
META = dict(
    technique="Lean 4 proof about a model of encodeRune/drawCell payload/CanDisplay/buildAcsMap generic in the charset encoder + kernel evaluation over the regenerated terminfo database + differential correspondence on a real terminfo screen per (entry, charset) + oracle decoding the emitted payload",
    text="Tcell.Props.C17 proves for every encoder, ACS map, fallback map, rune, combining list, width and column: the decision chain (encoder, else ACS, else fallback, else '?', '? ' for wide, blank in the last column), that the payload consists only of accepted encoder output / ACS / fallback / '?' pieces (never raw UTF-8, never a piece starting with 0x1A), CanDisplay agreement, and that Register/UnregisterRuneFallback take effect at the next draw. buildAcsMap is evaluated by the kernel on every database entry for the variant the tree under test implements (Gen.acsAll/Gen.acsRawByte, a behavioural probe of the translator): acs_map_spec (every acsc pair of every entry, last pair and characters >= 0x80 included, maps to EnterAcs+char+ExitAcs; full strength since fix 1c34022, refuted for the pinned loop) and acs_map_wire (that string is byte for byte what the terminal must receive, padding stripped, for every entry except vt220 and vt420 — exactly the two entries of the open finding acs-padding-literal, for which the statement is proved false). The engines draw the BMP (quick: all < 0x3000 + every 7th) in 24 charsets on real terminfo screens and compare payload bytes and CanDisplay with the model and with an oracle written from the property text.",
    note="Trusted: Lean kernel, correspondence (exhaustive for the ACS maps of all entries, sampled for the payload), external codecs as parameters. Fixed by 1c34022: acs-last-pair-dropped, acs-high-byte-utf8. Open finding: acs-padding-literal (vt220, vt420). (A wide '?' followed by an encodable combining rune is written unpadded — `?`+mark — but no rune that go-runewidth reports as zero-width is encodable in a charset that cannot encode a wide main rune, so under the width convention of DESIGN §6 this is not a violation; the oracle class wide-question-comb-unpadded stays armed.)",
)
