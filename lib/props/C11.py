from props import LEAN_TB, CORR_TB, TRANS_TB

PROP = dict(
    lean=["Tcell.Props.C11"], namespaces=["Tcell.Props.C11"], engines=["text", "pipepaste"],
    trusted_base=[LEAN_TB, CORR_TB, TRANS_TB,
                  "hand-written model of the input parser (lean/Tcell/Model/Parser.lean, tscreen.go:1295-1812) and of the read loop (`feedAll`, Model/TextInput.lean, tscreen.go:1890), tied to the code by the `text` engine through tcell.VerifParser.Feed",
                  "`decUtf8` models x/text UTF8Validator + utf8.DecodeRune (proved to obey the codec laws); `decTable`/`decMulti` model the charmap and multi-byte decoders of golang.org/x/text: the codec laws they are proved to obey are validated exhaustively on the real decoders through the real parser by the `text law` lines",
                  "the reference decoder of a charset NAME is the harness's own table (harness/engines/refcharsets.go: IANA / POSIX codeset names → golang.org/x/text and gdamore/encoding code pages, every name and alias encoding/all.go registers), never tcell.GetEncoding: a name registered with another charset's table is a finding (codec-law-full / text-rune-lost)",
                  "engine `pipepaste` (harness/sched under the schedule controller, xterm-256color): a paste whose end marker is lost (Suspend+Resume or DisablePaste/EnablePaste in the middle of it) followed by a complete paste must come out as START text END (classes paste-marker-lost, paste-marker-lost-after-resume)",
                  "key tables of the database entries are the ones the real constructor builds (translator dump `Tcell.Gen.dbTables`)"],
    assumptions=["no escape-timer expiry between the reads of one text (expiry is a separate input, C02)",
                 "no pending ESC when the text starts (otherwise the first rune carries ModAlt by design)",
                 "text = printable ASCII and characters >= U+00A0 the charset's decoder maps; C0/C1 controls, DEL, U+FFFD and unmapped bytes are out of domain",
                 "ISO-2022-JP and HZ (escape-driven 7-bit encodings) are excluded by the property"],
)
META = dict(
    technique="Lean 4 proof over the input-parser model for every text, every partition into reads and every key table satisfying decidable conditions (discharged for all database entries by kernel evaluation); decoder laws proved for the UTF-8 model and validated exhaustively on the real charset decoders; differential correspondence + property oracle through the verif parser hook",
    text="Tcell.Props.C11 proves `stream_delivery`: any sequence of characters, bracketed-paste markers and focus reports, split into reads arbitrarily (also inside a multi-byte character or a marker), yields exactly one event per item in order with nothing left buffered; instances `utf8_text` (decoder model proved law-abiding for all scalar values), `codec_text`/`table_text` (any decoder obeying CodecLaws; single-byte charsets), `multibyte_text_repaired`, `paste_bracket`, `focus_reports`; `multibyte_law_fails_pinned` + `gbk_ni_lost_pinned` show that the pinned parseRune (atEOF=true) loses every multi-byte legacy character. The engine `text` checks each codec law for every character of every stateless registered charset on the real parser (one byte per read and whole), and feeds random texts x partitions x paste/focus markers on entries with and without paste/focus support to the real parser and the model; the oracle compares the delivered runes/markers with what was sent.",
    note="Findings: text-multibyte-lost / codec-law-short (parseRune passes atEOF=true; fix fixes/C11-parserune-ateof.patch); focus-report-lost on the rxvt entries (Ctrl-arrow strings `ESC [ O a..d` shadowed the focus-out report; fixed in /repo by 7758baa).",
)
