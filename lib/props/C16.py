from props import LEAN_TB, CORR_TB, TRANS_TB

PROP = dict(
    lean=["Tcell.Props.C16"], namespaces=["Tcell.Props.C16"], engines=["color"],
    trusted_base=[LEAN_TB, CORR_TB, TRANS_TB,
                  "the CIE76 metric itself: go-colorful's sRGB→Lab (float64) is an external function; the FindColor theorems are generic in the metric, the oracle recomputes distances with go-colorful's Lab and validates them against an independent sRGB→CIELAB (tolerance 5e-4 = 0.05 ΔE)",
                  "references written by hand: xterm 256-colour formula and the CSS Color 4 named-colour table (Spec/Color.lean; the Go copy used by the oracle is cross-checked against it line by line)",
                  "models of strconv.ParseInt(s,16,32) and fmt.Sprintf(\"#%06X\") (validated by the correspondence on well-formed and malformed strings)"],
    assumptions=["colour names passed to GetColor are valid UTF-8 (byte length = utf8 size; other strings are exercised by the harness and agree)",
                 "round-trip laws are claimed for colours with a known RGB value that are canonical (flags + 24-bit value, as every constructor returns for in-range arguments); RGB-flagged values with extra bits, NewHexColor of a negative/over-wide int32 and palette indices without a ColorValues entry are observed (model = code) but outside the statement",
                 "FindColor argmin is claimed for palettes that do not list ColorDefault (the scan's sentinel) and whose members and query colour have a known RGB value; other palettes are checked against the model only"],
)
# observations outside the statement (model = code on all of them; recorded, not findings)
NOTES = [
    "NewHexColor(v) with v < 0 or v > 0xffffff: Color(v) sign-extends, e.g. NewHexColor(-1) is the all-ones value (ColorSpecial and every other bit set); Hex() still returns v mod 2^24 (theorem newHexColor_any)",
    "TrueColor()/CSS() of a valid palette index without a ColorValues entry (PaletteColor(256…), Hex() = -1): TrueColor() = all-ones value, CSS() = \"#-00001\", and GetColor(\"#-00001\") parses (ParseInt accepts a sign) to the same all-ones value (theorem css_roundtrip_other)",
    "GetColor accepts \"#+12345\" / \"#-12345\" (sign + 5 digits) because strconv.ParseInt does",
    "an RGB-flagged value carrying extra bits (24-31, 35-63) keeps them through TrueColor(), so GetColor(CSS(c)) differs from TrueColor(c) there (hypothesis Canonical in css_roundtrip)",
    "FindColor uses ColorDefault as its 'no match yet' sentinel: a palette that lists ColorDefault makes the next member win unconditionally (theorem findColor_default_member_quirk, findColor_restart); tscreen.go never builds such a palette",
    "NaN distances cannot arise from go-colorful for RGB() inputs (also -1 components give finite Lab values); the NaN→+Inf branch is exercised only in the model (example in Props/C16)",
    "NewRGBColor masks arguments outside 0..255 with & 0xff (theorem rgb_newRGBColor_any); FromImageColor of channels above 0xffff likewise",
]
META = dict(
    technique="Lean 4 proof (kernel evaluation over regenerated tables; bit/arithmetic lemmas with omega; induction over the palette for a metric-generic scan) + differential correspondence and exhaustive oracle sweeps of FindColor",
    text="Tcell.Props.C16 proves over the regenerated ColorValues/ColorNames: the 256 palette entries equal the xterm formula, all 148 W3C/CSS colour names are known and have their CSS value (names_css, full strength since fix 4dcedc1 added cyan/magenta), every name tcell lists is a CSS name, NewRGBColor/RGB, NewHexColor/Hex, TrueColor idempotence and value, GetColor(CSS(c)) = TrueColor(c), FromImageColor, invalid/special → -1 for all colour values, and for every metric that is a strict weak order, every colour and palette: FindColor returns a member, ColorDefault only for the empty palette, no member strictly closer, first minimum on ties. The model is compared with color.go/colorfit.go on tables, boundary and random inputs (FindColor on the exact float64 distances go-colorful produced); the oracle checks membership/argmin on 2^16 sampled (quick) or all 2^24 (thorough) colours × the 8/16/88/256-entry palettes and random palettes. Directed FindColor sweeps (dsweep: 1/4, 1/2, 3/4 points between every pair of members of the 8/16/88/256 palettes, the +-1 neighbourhood of every member, all greys; random palettes with members a step apart) sit on the decision boundaries between close members; not-valid colours with every combination of the RGB/special flag bits must stay not-valid (-1) through TrueColor and CSS. The tables are also compared with a snapshot while a terminfo screen of each colour count (8/16/88/256/direct) is alive and after its Fini (op within, class table-changed-by-screen): what the tables say is no function of any screen.",
    note="Trusted: Lean kernel, sampled model↔code correspondence, go-colorful's CIE76 as the metric (validated against an independent Lab within 0.05 ΔE), hand-written xterm/CSS references. Former finding (fixed by 4dcedc1): the W3C names cyan and magenta were missing from ColorNames.",
)
