from props import LEAN_TB, CORR_TB, TRANS_TB

PROP = dict(
    lean=["Tcell.Props.C09", "Tcell.Props.C09Acs", "Tcell.Props.C01B"], namespaces=["Tcell.Props.C09", "Tcell.Props.C01B"], engines=["draw", "drawcp"],
    classes=["malformed-output", "incomplete-sequence", "payload-", "ref-unavailable"],
    trusted_base=[LEAN_TB, CORR_TB, TRANS_TB,
                  "strict tokenizer = the Lean ECMA-48 reference emulator's complaint list on the implementation's bytes",
                  "go-runewidth as regenerated range table (kernel-checked range inclusions)"],
    assumptions=["combining lists hold zero-width non-control marks (the statement's own limitation)",
                 "capability strings are those of the built-in database and of tscreen.go's prepare* functions"],
)
META = dict(
    technique="Lean 4 proof that no primary rune (all of Int) yields a control byte or C1 scalar in the cell payload, from the regenerated width table by kernel evaluation + strict tokenizer (Lean reference emulator) over the implementation's bytes for draw histories and every code point",
    text="payload_clean: for every rune value the payload of the cell (GetContent substitution + UTF-8 encoding) contains no C0 byte, no DEL and encodes no C1 scalar; width-table obligations re-checked on the regenerated ranges. Tcell.Props.C09Acs: the strings the draw path writes for ACS glyphs (the strings buildAcsMap composed, written verbatim with writeString, for the variant the tree implements) contain no `$<` residue on any database entry once fixes/C17-acs-strip-padding.patch is in the tree (acs_strings_no_residue; pinned counterexample acs_residue_unstripped: vt220), and are accepted by the strict tokenizer on every ECMA entry (acs_strings_accepted; the PC-font C0 positions of ansi/cygwin/pcansi listed exactly by acs_pc_font_controls). Every byte stream the implementation writes in draw histories and in the all-code-points sweep is accepted by the strict reference tokenizer with no complaint and ends in ground state.",
    note="Symbolic: cup (with or without $<n> padding) for ALL positions on the 41 entries of the class XtermLike = every ECMA-48 entry of the database except the four corner-trick ones (C01B.cup_accepted_all, db_layerB, db_outside), closed forms of setaf/setab/setfgbg (five families of spellings: 3n, %{30}%+, conditional 256, always 38;5;n, colon 38:5:n)/RGB/underline-colour expansions for all parameters (LayerB.parm_*), and output_wellformed_partial: over every draw history the strict tokenizer accepts every byte the model writes, modulo CapsFx — which is proved for those 41 entries (C01B.db_output_wellformed: no CapsFx hypothesis; styles without hyperlink, fitted colours any palette entry; incl. monochrome entries, entries with padding, without civis/cnorm, without hyperlink strings; start state Quiet). The remaining expansions are validated (reference tokenizer on implementation bytes and on all DB strings, param_caps_accepted_samples).",
)
