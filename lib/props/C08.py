from props import LEAN_TB, CORR_TB, TRANS_TB

PROP = dict(
    lean=["Tcell.Props.C08"], namespaces=["Tcell.Props.C08"], engines=["cb"],
    trusted_base=[LEAN_TB, CORR_TB, TRANS_TB,
                  "model of cell.go as a total function Int→Int→Cell (row-major indexing not mirrored; every access is range-guarded)",
                  "go-runewidth modelled as the regenerated range table"],
    assumptions=["runes are int32 values; Resize is called with non-negative sizes (Go panics otherwise)",
                 "a caller does not mutate the slice GetContent returns (documented aliasing)",
                 "Fill is used with width-1 runes for the reported-width clause (documented limitation of Fill); on the tree repaired by fixes/C09-fill-zero-width.patch: with runes not wider than 1 (reported_width_law, FillOk)"],
)
META = dict(
    technique="Lean 4 proof (induction over op histories with a specification ghost) + differential correspondence of the model with cell.go",
    text="Theorems in Tcell.Props.C08 prove, for every buffer size, coordinate, rune, style and op history, storage (get/set, ColorNone merge, out-of-range, frame, Fill, Resize overlap), the reported-width invariant and dirty soundness against a ghost written from the property text. The hand-written model of cell.go is tied to the code by running random histories on both and comparing every GetContent/Dirty; an independent shadow oracle checks the statement on the real buffer. An empty combining list is passed both as a nil slice and as an empty non-nil one (`S … =`, what Screen.SetCell hands over): same list for model and oracle.",
    note="Trusted: Lean kernel, the model↔code correspondence (sampled), go-runewidth as regenerated table. Aliasing of the slice returned by GetContent is outside the model.",
)
