"""C19 – WebAssembly backend.  The cases are generated natively (`drive -engine wasm`), executed by the js/wasm program
harness/wasm under Node (hook below: build with GOOS=js GOARCH=wasm, run with the recording stand-in for tcell.js),
replayed on the Lean model by the driver, and the two observation streams are diffed."""
import fcntl, glob, json, os, re, shutil, subprocess, sys
from props import LEAN_TB, CORR_TB, TRANS_TB

CLIPBOARD_SHIM = """//go:build js && wasm

package tcell

// verification-only overlay (never written into the tree): lets the rest of C19 be checked on a tree whose
// wScreen lacks the two clipboard methods; the missing methods themselves are reported as finding `wasm-build`.
func (t *wScreen) SetClipboard(_ []byte) {}
func (t *wScreen) GetClipboard()         {}
"""


def _node():
    """node >= 16: the one on PATH if good enough, else the newest under ~/.nvm"""
    def ver(c):
        try:
            v = subprocess.run([c, "--version"], capture_output=True, text=True, timeout=20).stdout.strip().lstrip("v")
            return tuple(int(x) for x in v.split(".")[:2])
        except Exception:
            return (0, 0)
    p = shutil.which("node")
    if p and ver(p)[0] >= 16:
        return p
    cands = [(ver(c), c) for c in glob.glob(os.path.expanduser("~/.nvm/versions/node/*/bin/node"))]
    cands = sorted(c for c in cands if c[0][0] >= 16)
    return cands[-1][1] if cands else None


def _wasm_exec(goenv):
    root = subprocess.run(["go", "env", "GOROOT"], capture_output=True, text=True, env=goenv).stdout.strip()
    for sub in ("misc/wasm/wasm_exec.js", "lib/wasm/wasm_exec.js"):
        p = os.path.join(root, sub)
        if os.path.exists(p):
            return p
    return None


def _build(ctx, out):
    """returns (wasm path or None, findings, broken, used_overlay)"""
    hdir = os.path.join(ctx["root"], "harness")
    env = dict(ctx["goenv"], GOOS="js", GOARCH="wasm")
    wasm = os.path.join(out, "harness.wasm")
    findings, broken = [], None
    lock = open(os.path.join(ctx["build"], "build.lock"), "w")
    fcntl.flock(lock, fcntl.LOCK_EX)
    try:
        gm = os.path.join(hdir, "go.mod")
        tmpl = open(os.path.join(hdir, "go.mod.tmpl")).read().replace("@REPO@", ctx["repo"])
        if not os.path.exists(gm) or open(gm).read().split("require (")[0] != tmpl.split("require (")[0]:
            open(gm, "w").write(tmpl)
            shutil.copy(os.path.join(ctx["repo"], "go.sum"), os.path.join(hdir, "go.sum"))
        # 1. the backend itself must compile against the common Screen interface
        rc, o = ctx["sh"](["go", "build", "github.com/gdamore/tcell/v2"], cwd=hdir, env=env, timeout=900)
        overlay = []
        if rc != 0:
            diag = "\n".join(l for l in o.split("\n") if l.strip() and not l.startswith("WARNING"))
            findings.append({"case": 0, "line": "wasm build", "class": "wasm-build",
                             "msg": "GOOS=js GOARCH=wasm go build github.com/gdamore/tcell/v2 fails: " + diag[:1500]})
            if re.search(r"missing method (Get|Set)Clipboard", o):
                shim = os.path.join(out, "zz_verif_clipboard_js.go")
                open(shim, "w").write(CLIPBOARD_SHIM)
                ov = os.path.join(out, "overlay.json")
                json.dump({"Replace": {os.path.join(d, "zz_verif_clipboard_js.go"): shim
                                       for d in {os.path.realpath(ctx["repo"]), os.path.abspath(ctx["repo"])}}}, open(ov, "w"))
                overlay = ["-overlay", ov]
        rc, o = ctx["sh"](["go", "build"] + overlay + ["-o", wasm, "./wasm"], cwd=hdir, env=env, timeout=900)
        if rc != 0:
            if not findings:
                findings.append({"case": 0, "line": "wasm build", "class": "wasm-build",
                                 "msg": "GOOS=js GOARCH=wasm go build of the wasm harness fails: " + o[-1500:]})
            broken = {"kind": "wasm-build", "detail": o[-3000:]}
            return None, findings, broken, bool(overlay)
        return wasm, findings, None, bool(overlay)
    finally:
        fcntl.flock(lock, fcntl.LOCK_UN)


def _run_wasm(ctx, node, wexec, wasm, cases, out, tag="run", chunk=800, par=4):
    """executes the case lines under Node; returns (list of result dicts or None, log).
    The cases are split over several Node processes: every wScreen.Init leaks its js.FuncOf closures (they are
    never Released by wscreen.go), so one process must not run an unbounded number of cases."""
    runjs = os.path.join(ctx["root"], "harness", "wasm", "run.js")
    parts = [cases[i:i + chunk] for i in range(0, len(cases), chunk)] or [[]]
    outs = [None] * len(parts)

    def start(k):
        cf = os.path.join(out, f"{tag}.{k}.cases")
        open(cf, "w").write("\n".join(parts[k]) + "\n")
        return subprocess.Popen([node, runjs, wexec, wasm, cf, os.path.join(ctx["root"], "gen", "webkeys.txt")],
                                stdout=open(os.path.join(out, f"{tag}.{k}.out"), "w"), stderr=open(os.path.join(out, f"{tag}.{k}.err"), "w"))
    running, nxt = {}, 0
    while nxt < len(parts) or running:
        while nxt < len(parts) and len(running) < par:
            running[nxt] = start(nxt)
            nxt += 1
        k, pr = next(iter(running.items()))
        try:
            rc = pr.wait(timeout=3000)
        except subprocess.TimeoutExpired:
            pr.kill()
            rc = -9
        del running[k]
        res = []
        for l in open(os.path.join(out, f"{tag}.{k}.out")):
            if l.startswith("{"):
                try:
                    res.append(json.loads(l))
                except Exception:
                    pass
        if rc != 0 or len(res) != len(parts[k]):
            for q in running.values():
                q.kill()
            err = open(os.path.join(out, f"{tag}.{k}.err")).read()
            return None, f"chunk {k}: rc={rc} results={len(res)}/{len(parts[k])}\n{err[-3000:]}"
        outs[k] = res
    return [x for part in outs for x in part], ""


def _model(ctx, lines):
    drv = os.path.join(ctx["root"], "lean", ".lake", "build", "bin", "driver")
    p = subprocess.run([drv, os.path.join(ctx["root"], "gen")], input="\n".join(lines) + "\n", capture_output=True, text=True, timeout=3000)
    out = p.stdout.split("\n")
    return [out[i] if i < len(out) else "<no output>" for i in range(len(lines))]


def _shrink(ctx, node, wexec, wasm, out, line, cls, budget=40):
    if ";" not in line:
        return line
    head = " ".join(line.split(" ")[:2])
    ops = [o.strip() for o in line[len(head):].split(";") if o.strip()]

    def fails(cand):
        res, _ = _run_wasm(ctx, node, wexec, wasm, [head + " " + "; ".join(cand)], out, tag="shrink")
        return bool(res) and any(f["class"] == cls for f in res[0]["findings"])
    n = 2
    while len(ops) >= 2 and budget > 0:
        chunk = max(1, len(ops) // n)
        reduced = False
        for i in range(0, len(ops), chunk):
            cand = ops[:i] + ops[i + chunk:]
            budget -= 1
            if cand and fails(cand):
                ops, n, reduced = cand, max(n - 1, 2), True
                break
            if budget <= 0:
                break
        if not reduced:
            if chunk == 1:
                break
            n = min(len(ops), n * 2)
    return head + " " + "; ".join(ops)


def wasm_hook(ctx):
    out = os.path.join(ctx["build"], "run", f"C19-wasm-{ctx['tier']}-{ctx['seed']}")
    shutil.rmtree(out, ignore_errors=True)
    os.makedirs(out)
    r = {"engine": "wasm", "findings": [], "stats": {}, "disagreements": [], "compared": 0, "dir": out}
    rule = "distinct case line; non-trivial = a history with at least one drawCell call / one fired callback / a lifecycle order"
    # ---- cases: the replayed line, or the native generator
    replay = "--replay" in sys.argv
    if replay:
        cases = [l.strip() for l in open(os.path.join(ctx["build"], "replay_line.txt")) if l.strip()]
    else:
        gdir = os.path.join(out, "gen")
        env = dict(os.environ, VERIF_REPO=ctx["repo"], VERIF_GEN=os.path.join(ctx["root"], "gen"), VERIF_ROOT=ctx["root"])
        cmd = [os.path.join(ctx["build"], "drive"), "-engine", "wasm", "-tier", ctx["tier"], "-seed", str(ctx["seed"]), "-out", gdir]
        corpus = os.path.join(ctx["root"], "replays", "corpus", "wasm.txt")
        if os.path.exists(corpus):
            cmd += ["-corpus", corpus]
        rc, o = ctx["sh"](cmd, env=env, timeout=3000)
        if rc != 0:
            r["broken"] = {"kind": "harness-run", "engine": "wasm", "detail": o[-3000:]}
            return r
        cases = [l for l in open(os.path.join(gdir, "cases.txt")).read().split("\n") if l.strip()]
        cases = ["wasm build", "wasm locks"] + cases
    special = [c for c in cases if c in ("wasm build", "wasm locks")]
    cases = [c for c in cases if c not in ("wasm build", "wasm locks")]
    # ---- the js/wasm build (a failure is a finding; the clipboard overlay lets the rest still be checked)
    wasm, bf, broken, overlay = _build(ctx, out)
    if not replay or "wasm build" in special:
        r["findings"] += bf
    tags = {"build:ok" if not bf else "build:failed": 1}
    if overlay:
        tags["build:clipboard-overlay"] = 1
    # ---- verdict of the kernel-checkable lock-balance checker on the regenerated skeleton
    if not replay or "wasm locks" in special:
        ans = _model(ctx, ["wasm locks"])[0]
        tags["locks:" + ans.split(" ")[0]] = 1
        if ans.startswith("leaky"):
            facts = {}
            fp = os.path.join(ctx["root"], "gen", "wlockfacts.txt")
            if os.path.exists(fp):
                for l in open(fp):
                    k, _, v = l.strip().partition(" ")
                    facts[k] = v
            names = ans.split(" ", 1)[1].split(",")
            r["findings"].append({"case": 0, "line": "wasm locks", "class": "lock-leak",
                                  "msg": "methods of wScreen that do not release the mutex on every path (or re-lock it): " +
                                         "; ".join(f"{n}: {facts.get(n, '?')}" for n in names)})
        elif ans != "balanced":
            r["broken"] = {"kind": "correspondence", "engine": "wasm", "detail": "driver answered `" + ans[:200] + "` to `wasm locks`"}
    if wasm is None:
        r["broken"] = broken
        r["stats"] = {"engine": "wasm", "rule": rule, "evaluations": len(special), "distinct_nontrivial": 0, "input_distribution": tags, "samples": special}
        return r
    node, wexec = _node(), _wasm_exec(ctx["goenv"])
    if not node or not wexec:
        r["broken"] = {"kind": "harness-run", "engine": "wasm", "detail": f"node={node} wasm_exec.js={wexec}"}
        return r
    res, log = ([], "") if not cases else _run_wasm(ctx, node, wexec, wasm, cases, out)
    if res is None:
        r["broken"] = {"kind": "harness-run", "engine": "wasm", "detail": log}
        return r
    model = _model(ctx, cases) if cases else []
    open(os.path.join(out, "cases.txt"), "w").write("\n".join(cases) + "\n")
    open(os.path.join(out, "impl.txt"), "w").write("\n".join(x["obs"] for x in res) + "\n")
    open(os.path.join(out, "model.txt"), "w").write("\n".join(model) + "\n")
    distinct = set()
    first_of_class = {}
    for i, (c, x) in enumerate(zip(cases, res)):
        for t in x.get("tags", []):
            tags[t] = tags.get(t, 0) + 1
        if x.get("nontrivial"):
            distinct.add(c)
        if x["obs"] != model[i]:
            r["disagreements"].append({"case": i, "line": c, "impl": x["obs"][:2000], "model": model[i][:2000]})
        for f in x.get("findings", []):
            fd = {"case": i, "line": c, "class": f["class"], "msg": f["msg"]}
            r["findings"].append(fd)
            first_of_class.setdefault(f["class"], fd)
    if not replay:
        for cls, fd in first_of_class.items():
            small = _shrink(ctx, node, wexec, wasm, out, fd["line"], cls)
            if small != fd["line"]:
                fd["original_line"], fd["line"] = fd["line"], small
                res1, _ = _run_wasm(ctx, node, wexec, wasm, [small], out, tag="shrunk")
                for f in (res1 or [{}])[0].get("findings", []):
                    if f["class"] == cls:
                        fd["msg"] = f["msg"]
                        break
            # findings are reported per class: put the (shrunk) representative first
            r["findings"].remove(fd)
            r["findings"].insert(0, fd)
    if r["disagreements"]:
        r["broken"] = {"kind": "correspondence", "engine": "wasm", "count": len(r["disagreements"]), "first": r["disagreements"][:3]}
    r["compared"] = len(cases)
    samples = [c[:600] for c in ([cases[0], cases[len(cases) // 2], cases[-1]] if len(cases) > 3 else cases)]
    r["stats"] = {"engine": "wasm", "rule": rule, "evaluations": len(cases) + len(special), "distinct_nontrivial": len(distinct),
                  "findings": len(r["findings"]), "input_distribution": tags, "samples": samples, "seed": ctx["seed"], "tier": ctx["tier"],
                  "extra": {"node": node, "clipboard_overlay": overlay,
                            "lifecycle_orders_up_to_4": sum(1 for c in cases if c.startswith("wasm life") and c.count(";") <= 3)}}
    return r


PROP = dict(
    lean=["Tcell.Props.C19", "Tcell.Props.C19Page", "Tcell.AuditLib"], namespaces=["Tcell.Props.C19"], engines=[], extra=[wasm_hook],
    trusted_base=[LEAN_TB, CORR_TB, TRANS_TB,
                  "Go js/wasm toolchain, Node and syscall/js as the execution platform; harness/wasm/run.js (recording stand-in for webfiles/tcell.js: logs the arguments of every call, fires the registered callbacks)",
                  "translator's go/ast walk of wscreen.go: WebKeyNames/palette tables with constants evaluated by go/types; lock skeleton (Lock/Unlock/defer/return/if/loop) of every *wScreen method, loops abstracted to 0-or-1 iterations, callee locking classified transitively",
                  "hand-written model of wScreen.draw/drawCell/SetSize/onKeyEvent/onMouseEvent over the C08 buffer model, tied by the differential run under Node"],
    assumptions=["the page is the abstract grid updated by drawCell/clearScreen/resize calls (what tcell.js keeps in content.data); CSS rendering of a cell is out of scope",
                 "cells hidden behind a wide rune and locked cells are not compared; a zero-width rune is not stored with SetContent as the main rune of a cell (Fill takes ANY rune: page_faithful is generic in the Fill variant, fz = Tcell.currentFillBlanksZeroWidth being the tree as it is) and SetStyle is not changed between Shows in the history theorem (the oracle does not need either); LockRegion is modelled with its re-dirtying of a wide rune left of a really unlocked row (Tcell.lockRowsG, shared with C01/C13/C18)",
                 "JavaScript callbacks arrive one at a time on the single js/wasm thread and the application polls events (the 10-slot queue is not filled)",
                 "key names: the theorem and the exhaustive run quantify over the names of the regenerated table; KeyboardEvent.key values outside it (e.g. PageUp) fall through to the rune path and are outside the statement"],
)
META = dict(
    technique="Lean 4 proof over a model of wscreen.go + regenerated tables/lock skeletons (translator) + differential run of the real js/wasm backend under Node against the model + page-grid oracle",
    text="post_event_waits_tree / callbacks_have_no_select_tree (kernel verdict on the regenerated select facts of wscreen.go): postEvent, the one place where a JavaScript callback hands its event to the application, is a select without a default clause — a callback waits for room in the event queue, it never discards its event; bursts of callbacks in one JS task are also run (op burst; under the js/wasm runtime a parked poller is scheduled after every callback, so the running check alone cannot fill the queue — the theorem is what decides this clause). The package and a harness are compiled with GOOS=js GOARCH=wasm (a compile error is the finding wasm-build). Under Node a recording stand-in for webfiles/tcell.js logs every drawCell/clearScreen/show/resize/cursor call; draw histories, every key name of the table x 16 modifier sets, every mouse button code x enabled-flag set, paste/focus and every order of Suspend/Resume/SetSize/Fini up to length 4 (plus longer random ones) are executed with an event-loop deadlock detector. The oracle replays the calls into a page grid and compares it with GetContent (text incl. combining, 24-bit colours with the xterm values of the 16 basic colours, attribute bits, underline), checks that only changed cells are touched, that events carry the expected key/button/modifiers and that mouse reports are honoured only for enabled modes. The same cases run on the Lean model (Tcell.Model.WScreen, lock behaviour from the regenerated skeleton) and are diffed. Theorems: page_frame, page_faithful (history induction reusing the C08 ghost), key/mouse translation over the regenerated table, soundness of the lock-balance checker (lock_balanced), lock_balanced_tree (kernel evaluation: EVERY wScreen method of the regenerated skeleton, Suspend/Resume included, is balanced; every locking callee is a balanced method) and lifecycle_no_self_deadlock_tree (every order and length of Suspend/Resume/SetSize/Fini on the regenerated skeleton returns with the mutex free).",
    note="Trusted: Lean kernel; Go wasm toolchain + Node; the recording stub; the go/ast translator. The pinned tree failed to build for js/wasm and Suspend/Resume leaked the mutex: both findings are fixed in /repo (0e2ad2d, 2cbae24) and the tree-wide lock theorems are now stated without exception.",
)
