from props import LEAN_TB, CORR_TB, TRANS_TB

PROP = dict(
    lean=["Tcell.Props.C02"], namespaces=["Tcell.Props.C02", "Tcell.Lemmas.Chunk", "Tcell.Lemmas.ChunkUtf8"], engines=["parsechunk"],
    trusted_base=[LEAN_TB, CORR_TB, TRANS_TB,
                  "hand-written model of the input parser (lean/Tcell/Model/Parser.lean, tscreen.go:1295-1812; `parseClipboardF` mirrors fixes/C02-clipboard.patch), tied to the code by the `parsechunk` engine through tcell.VerifParser.Feed; the harness probes which clipboard variant the tree implements (+clipfix)",
                  "key tables: Gen.dbTables are extracted from the real constructor (translator) and equal to the model's buildKeys by the exhaustive `keytable` correspondence (C03)",
                  "decoder instances decUtf8 / decTable model golang.org/x/text decoders called with atEOF=true (multi-byte legacy charsets: see C11)",
                  "the no-swallow oracle's tokeniser (harness/engines/parsechunk.go) is a reading of ECMA-48 / xterm ctlseqs / RFC 3629; it only places sequence boundaries"],
    assumptions=["no escape timeout expires between the reads of a partition (only the last read may carry it)",
                 "Stable cfg: prefix-free key table, keyGuard (both decided by kernel evaluation for every database entry: db_stable, no entry excepted), decoder laws (proved for UTF-8 and single-byte charsets), repaired clipboard parser where that parser is active",
                 "where two readings of the same bytes compete (a key that is also a report) the statement does not fix the winner and the oracle is silent"],
)
META = dict(
    technique="Lean 4 proof (prefix monotonicity of every parser + priority stability of every parser pair => chunk independence of the main loop) about a model of tscreen.go's input parser, differential correspondence and property oracles through the verif parser hook",
    text="Tcell.Props.C02 proves for all byte strings a b, all parser states and all configurations satisfying the decidable/Prop hypothesis Stable: collect (a++b) = collect a then collect (rest++b) (collect_append), hence equality for every partition into reads (feed_chunks_eq_feed_concat), expire_drains, never_stalls, no_swallow, not_order_dependent; Stable is discharged by kernel evaluation for the key table of EVERY regenerated database entry with no exception (db_guard, db_stable; the clipboard parser variant is the one the tree implements, Gen.clipFixed from a translator probe), giving db_chunk_independent: for the screen of every built-in entry (UTF-8, any size, either X11 variant) every partition into reads equals one read, and db_expire_drains; the decoder laws are proved for UTF-8 and all single-byte charsets. The pinned parseClipboard is refuted by decide-checked counterexamples (event lost / bytes swallowed depending on chunking; fixed by 6c7d26f), the pre-7758baa rxvt Ctrl-arrow keys `ESC [ O a..d` clash with the focus-out report (rxvt_focus_clash). Engine `parsechunk` feeds token strings of every kind (keys of every entry, SGR/X11 mouse, paste, focus, OSC 52 BEL/ST, UTF-8, invalid bytes, lone ESC, near misses, random bytes) under all single splits / random partitions to the real parser and the model, compares one read with the partition (chunk-*) and the whole stream with the concatenation of its sequences (swallow-*).",
    note="Findings: parseClipboard cuts relative to the end of the buffer and skips the prefix unchecked (fixed: 6c7d26f); rxvt Ctrl-arrows extend the focus-out report (fixed: 7758baa); parseSgrMouse ignores unknown bytes (open).",
)
