"""C05 — events are delivered exactly once, in order, with back-pressure not loss (proof about a transition-system model; partial)."""
from props import LEAN_TB, CORR_TB
from props.C06 import PROP as P6

PROP = dict(
    level="proof",
    lean=["Tcell.Props.C05", "Tcell.Props.C05Real"], namespaces=["Tcell.Props.C05", "Tcell.Props.C05Real"], engines=["pipe"],
    classes=["input-event", "post-", "pending-", "when-", "error-event", "channel-not-closed", "ref:", "crash", "fatal"],
    trusted_base=P6["trusted_base"] + ["the parser enters the theorems only through the chunk law (hypothesis ChunkLaw; property C02 proves it for the real parser model); the replay uses the real parser model Tcell.Model.collect"],
    assumptions=["a single consumer drains the queue (PollEvent loop or one ChannelEvents reader)",
                 "input that arrives more slowly than the 50 ms escape timeout may be decoded differently (documented behaviour; the oracle then skips the exact-sequence check and says so)",
                 "events in flight at the moment of Fini/Suspend may be discarded (ghost flag `lossy`); before that nothing is"] + P6["assumptions"][1:],
)
META = dict(
    technique="Lean 4 invariant proof over an explicit transition-system model of the event pipeline (any capacities, any interleaving, any polling pattern) + trace inclusion of the real code under a serialising schedule controller + sequence-number oracle on the real code",
    text="PARTIAL (proof about a model; the Go scheduler and timers are not modelled, When() has no model counterpart, the tie is sampled trace inclusion). Tcell.Props.C05 proves by induction over all label lists of Tcell.Model.Pipeline: pipeline_inv (queue conservation: delivered ++ forwarded ++ queued = everything ever enqueued, in order; decoded-event conservation; input-byte conservation) and, under the parser's chunk law, decode_independent_of_chunking (the events decoded so far are exactly collect(all bytes received), whatever the chunking and interleaving) — hence exactly-once and in-order until a shutdown begins (lossy_only_after_shutdown); post_nil_iff_enqueued (PostEvent returns nil exactly when it enqueued), posted events keep posting order; pending_implies_nonblocking (a true HasPendingEvent stays true until the single consumer polls). Engine `pipe` injects numbered key/mouse/paste/focus input in random chunkings and 1-4 posters with numbered EventInterrupts into the real screen under a seeded schedule controller with consumers that stop polling (both queues full), and checks the PollEvent/ChannelEvents output: exactly once, in order per source, nothing lost when polling resumes, PostEvent result vs delivery, HasPendingEvent vs the next poll, ChannelEvents closing, and When() (under recover) between cause and delivery.",
    note="Known finding: NewEventFocus leaves the embedded EventTime nil, When() panics on every focus event (fixes/C05-focus-when.patch). What the model cannot exhibit: wall-clock behaviour of the escape timer, When(), more than one consumer.",
)
