from props import LEAN_TB, CORR_TB, TRANS_TB

PROP = dict(
    lean=["Tcell.Props.C14"], namespaces=["Tcell.Props.C14"], engines=["lookup"],
    trusted_base=[LEAN_TB, CORR_TB, TRANS_TB],
    assumptions=[],
)
META = dict(technique="", text="", note="")
