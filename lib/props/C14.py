from props import LEAN_TB, CORR_TB, TRANS_TB

PROP = dict(
    lean=["Tcell.Props.C14"], namespaces=["Tcell.Props.C14"], engines=["lookup"],
    trusted_base=[LEAN_TB, CORR_TB, TRANS_TB,
                  "database layer: kernel evaluation (decide +kernel) over lean/Tcell/Gen/TerminfoDB.lean, regenerated from the entries the tree registers (VerifEntries hook)",
                  "model of terminfo.AddTerminfo/LookupTerminfo (lean/Tcell/Model/Lookup.lean): name table + heap so that pointer aliasing is represented; recursion fuel proved irrelevant (lookupF_fuel)",
                  "translator probe Gen.lookupCopies selects which proved model variant (in place / copy) the driver compares with the tree; the oracle does not depend on it",
                  "parameterised strings are judged syntactically (Spec/TermSyntax.lean, written from terminfo(5)); semantic evaluation is C07's"],
    assumptions=["the environment is read only through COLORTERM and TCELL_TRUECOLOR (terminfo.go:702,750)",
                 "tcell.LookupTerminfo's fallback to the dynamic loader (infocmp, terms_dynamic.go) is out of scope; only the registration it performs (AddTerminfo) is modelled",
                 "lookups are sequential (dblock is not held across the amendments; concurrent lookups are C10's concern)",
                 "key prefix-freeness is stated over the raw Key* capability strings of an entry; the table prepareKeys derives from them is C03's"],
)
META = dict(
    technique="Lean 4: kernel-evaluated obligations over the regenerated database (linear certificates) + proofs about a name-table/heap model of LookupTerminfo (pinned and repaired variant); differential lookup histories with registry snapshot/restore; pure reference oracle",
    text="Tcell.Props.C14 proves over the regenerated database: every registered name/alias resolves (also through the model of AddTerminfo and through lookup), every entry has SetCursor, every parameterised capability is a well-formed terminfo program within the arity tcell supplies, colour counts agree with colour strings, no Key* string is a proper prefix of another (sorted-adjacent certificate with a soundness lemma). For all registries, names and environments it proves: termination made explicit (fuel irrelevance), found ⇔ resolvable (so unknown names and \"\" fail), the COLORTERM/TCELL_TRUECOLOR table, synth_256 / synth_truecolor (exact standard sequences), a failing lookup never writes. lookup_pure / lookup_order_independent are proved for the repaired variant (copy before amending) and refuted for the pinned code by kernel-checked witnesses on the real database (eterm-256color→eterm-color, screen-truecolor→screen-256color, COLORTERM leak); the pinned code satisfies them on the class of non-amending first lookups (…_partial); pinned and repaired code return the same value for every single lookup. The engine replays lookup histories (all ordered pairs of ~530 names in the thorough tier) on the real registry restored from a snapshot, compares every result and every edited registered entry with the model, and an oracle written from the property text reports order dependence, wrong synthesis, wrong environment handling, wrong error, and the database obligations on the live registry.",
    note="Open finding C14-lookup-mutates-registry (class lookup-order-dependent): LookupTerminfo edits the shared registered entry in place; fixes/C14-lookup-copy.patch repairs it (then the check reports nothing and the driver switches to the repaired model via the translator probe). Trusted: Lean kernel, sampled model↔code correspondence, translator. Semantic well-formedness of parameterised strings (evaluation) is delegated to C07; infocmp fallback out of scope.",
)
