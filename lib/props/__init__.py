"""Per-property configuration, one module per property (lib/props/Cxx.py defining PROP and META).
PROP: lean modules / namespaces holding the theorems, harness engines, trusted base, assumptions, optional `extra` hooks.
META: texts for MANIFEST.json (technique, text, note)."""
import importlib, os, pkgutil

LEAN_TB = "Lean 4 kernel (lake build; leanchecker re-check in the thorough tier); axioms limited to propext, Classical.choice, Quot.sound (audited per theorem)"
CORR_TB = "correspondence harness (harness/cmd/drive + lean driver + line diff): sampling-based differential test of the hand-written Lean model against the real code"
TRANS_TB = "translator harness/cmd/extract (regenerates lean/Tcell/Gen and gen/ from the current tree on every run)"

PROPS, META = {}, {}
for m in pkgutil.iter_modules([os.path.dirname(__file__)]):
    if m.name.startswith("C"):
        mod = importlib.import_module("props." + m.name)
        PROPS[m.name] = mod.PROP
        META[m.name] = mod.META
