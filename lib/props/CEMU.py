from props import LEAN_TB, CORR_TB, TRANS_TB

# Not one of the 20 properties: self-test of the shared ECMA-48 reference emulator (lean/Tcell/Spec/Ecma48.lean) that the
# C01/C13/C09/C04 oracles call through Derived lines.  `./check CEMU quick` builds the hand-checked scenarios and the
# compositional lemmas, audits them, and runs the `emu` engine (see harness/engines/emu.go).
PROP = dict(
    lean=["Tcell.Spec.Ecma48Test", "Tcell.Spec.Ecma48Lemmas"], namespaces=["Tcell.Spec.Ecma48"], engines=["emu"],
    trusted_base=[LEAN_TB, TRANS_TB,
                  "the emulator itself is reference semantics written from ECMA-48 / xterm ctlseqs (DESIGN.md §6)"],
    assumptions=["standards-conforming terminal conventions of DESIGN.md §6"],
)
META = dict(
    technique="self-test of the reference emulator: kernel-evaluated scenarios, compositional lemmas, generated streams from the real capability strings",
    text="not a property check", note="internal",
)
