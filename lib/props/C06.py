"""C06 — Fini and Suspend always return; the screen is inert afterwards (partial: proof about a transition-system model)."""
from props import LEAN_TB, CORR_TB

PROP = dict(
    level="proof",
    lean=["Tcell.Props.C06"], namespaces=["Tcell.Props.C06"], engines=["pipe"],
    classes=["hang", "goroutine-leak", "poll-", "channel-not-closed", "second-fini", "panic-after-fini", "hang-after-fini",
             "input-dead-after-resume", "input-lost-after-resume", "resize-dead-after-resume", "init-error", "ref:", "crash", "fatal"],
    trusted_base=[LEAN_TB, CORR_TB],
    assumptions=[],
)
META = dict(technique="", text="PARTIAL", note="")
