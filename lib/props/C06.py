"""C06 — Fini and Suspend always return; the screen is inert afterwards (proof about a transition-system model; partial)."""
from props import LEAN_TB, CORR_TB

PROP = dict(
    level="proof",
    lean=["Tcell.Props.C06", "Tcell.Props.C06Real"], namespaces=["Tcell.Props.C06", "Tcell.Props.C06Real"], engines=["pipe"],
    classes=["hang", "blocks:", "goroutine-leak", "poll-", "channel-not-closed", "second-fini", "panic-after-fini", "hang-after-fini",
             "input-dead-after-resume", "input-lost-after-resume", "resize-dead-after-resume", "init-error", "ref:", "crash", "fatal"],
    trusted_base=[LEAN_TB, CORR_TB,
                  "hand-written transition system lean/Tcell/Model/Pipeline.lean (inputLoop, mainLoop, scanInput, resize, finish/disengage/engage, PollEvent/PostEvent/PostEventWait/ChannelEvents at the granularity of the schedule points); tied to the code by trace inclusion only: engine `pipe` runs the real screen under a serialising schedule controller (harness/sched) and the Lean driver must accept every logged point as a transition of the model (sampled schedules)",
                  "schedule points of hooks/C05C06-sched-points.patch (build tag verif; add-only) and the controller's bookkeeping of channel lengths, cross-checked against the len()/cap() values each point reports",
                  "Go channel / select / WaitGroup / sync.Once semantics as encoded in the guards of `step`; mutex-protected regions without a schedule point are atomic steps"],
    assumptions=["the Tty honours its contract: Drain (or Stop/Close) makes a blocked Read return (label inReadEmpty)",
                 "the scheduler is fair to enabled goroutines, and a select whose stopQ/quit case is ready does not prefer its other ready cases for ever (selectFair)",
                 "one goroutine at a time calls Fini/Suspend/Resume (the model has a single life-cycle caller)",
                 "timers are a nondeterministic `mainTimer` label; real time, the Go scheduler and the real tty drivers (tty_unix.go, signals) are not modelled"],
)
META = dict(
    technique="Lean 4 proof over an explicit transition-system model of the event pipeline and shutdown (any capacities, any fill levels, any interleaving, read faults anywhere) + trace inclusion of the real code under a serialising schedule controller + deadline/goroutine-dump oracle on the real code",
    text="PARTIAL (proof about a model; the Go scheduler, timers and real tty drivers are not modelled, and the tie is sampled trace inclusion). Tcell.Props.C06 proves, for every reachable state of Tcell.Model.Pipeline: no_stuck_after_shutdown (repaired variant: whenever Fini/Suspend is in progress some internal step is enabled) and rank_decreases/bounded_termination (a ranking function bounds the number of internal steps, under select fairness), after_fini_inert (quit closed so PollEvent cannot block, both loops gone, WaitGroup 0, tty closed, second Fini a no-op, ChannelEvents can only close), resume_restarts_loops. For the PINNED tree it proves the refutation: pinned_suspend_stuck, pinned_fini_stuck, pinned_suspend_stuck_on_error are reachable states (by kernel evaluation) where the call waits in wg.Wait() and nothing can move; no_stuck_pinned_partial says those two unguarded sends are the only way. Engine `pipe` drives the real terminfo screen on an in-memory tty through the same situations at chosen queue fill levels 0..cap (Fini, Suspend, Suspend/Resume cycles, read errors, consumers that stop polling, 1-4 posters, resizes, drawing), reproduces the three hangs on the real code (6 s deadline after all goroutines were released, goroutine dump naming the parked tcell frame), and checks inertness after Fini (PollEvent nil, channel closed, goroutine census, second Fini, 26 further Screen calls under recover) and delivery after Resume.",
    note="Known findings on the pinned tree: Suspend/Fini hang in scanInput / inputLoop (fixes/C06-shutdown-selects-stopq.patch; with it the model variant `fixed` is the one replayed and the full theorem applies). What the model cannot exhibit: scheduler unfairness, timer behaviour, tty drivers, concurrent life-cycle callers, goroutine leaks outside the two loops (the harness adds a goroutine census as supporting observation).",
)
