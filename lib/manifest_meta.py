HOOK_COMMITS = ["d538c87", "3eb2de4", "61cb04f"]
ENGINES = [
    {"name": "lean", "path": "lean/", "kind_free_text": "Lean 4 library Tcell (Base, Model = executable models of the Go code, Spec = independent references incl. the ECMA-48 emulator and the terminfo(5) evaluator, Lemmas, Props = property theorems, Gen = regenerated from /repo on every run) + core-only line-protocol driver executable (lean/Driver)",
     "serves_properties": ['C01', 'C02', 'C03', 'C04', 'C05', 'C06', 'C07', 'C08', 'C09', 'C10', 'C11', 'C12', 'C13', 'C14', 'C15', 'C16', 'C17', 'C18', 'C19', 'C20']},
    {"name": "harness", "path": "harness/", "kind_free_text": "Go module built against $VERIF_REPO with -tags verif: cmd/extract (translator: terminfo database, key/colour tables, rune widths, lock facts -> lean/Tcell/Gen, gen/), cmd/drive + engines/ (case generators, execution of the real code, oracles written from the property texts), h/ (PRNG, reference access to the Lean driver)",
     "serves_properties": ['C01', 'C02', 'C03', 'C04', 'C05', 'C06', 'C07', 'C08', 'C09', 'C10', 'C11', 'C12', 'C13', 'C14', 'C15', 'C16', 'C17', 'C18', 'C19', 'C20']},
    {"name": "race", "path": "harness/race/", "kind_free_text": "binary built with -race that exercises pairs of Screen methods chosen from the regenerated lock facts under input/resize traffic",
     "serves_properties": ["C10"]},
    {"name": "sched", "path": "harness/sched/", "kind_free_text": "binary that runs the real terminfo screen on an in-memory tty under a seeded serialising schedule controller installed through the verif schedule points; logs point traces replayed by the Lean pipeline model; oracles for delivery order, back-pressure, shutdown deadlines, inertness after Fini",
     "serves_properties": ["C05", "C06"]},
    {"name": "wasm", "path": "harness/wasm/", "kind_free_text": "GOOS=js GOARCH=wasm build of the package + harness run under Node with a recording stand-in for webfiles/tcell.js",
     "serves_properties": ["C19"]},
    {"name": "check", "path": "check", "kind_free_text": "single entry point: rebuild + regenerate + lake build + axiom audit + correspondence + oracles + verdict + evidence; lib/props/Cxx.py holds the per-property configuration",
     "serves_properties": ['C01', 'C02', 'C03', 'C04', 'C05', 'C06', 'C07', 'C08', 'C09', 'C10', 'C11', 'C12', 'C13', 'C14', 'C15', 'C16', 'C17', 'C18', 'C19', 'C20']},
]
NOT_APPLICABLE = {}
