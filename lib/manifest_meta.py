HOOK_COMMITS = ["d538c87"]
ENGINES = [
    {"name": "lean", "path": "lean/", "kind_free_text": "Lean 4 library Tcell (models, specs, lemmas, property theorems) + line-protocol driver executable",
     "serves_properties": ["C08"]},
    {"name": "harness", "path": "harness/", "kind_free_text": "Go module built against /repo with -tags verif: cmd/extract (translator → lean/Tcell/Gen, gen/), cmd/drive (correspondence + oracle)",
     "serves_properties": ["C08"]},
]
NOT_APPLICABLE = {}
