HOOK_COMMITS = []
ENGINES = [
    {"name": "lean", "path": "lean/", "kind_free_text": "Lean 4 library Tcell (models, specs, lemmas, property theorems) + line-protocol driver executable",
     "serves_properties": ["C08"]},
    {"name": "harness", "path": "harness/", "kind_free_text": "Go module built against /repo with -tags verif: cmd/extract (translator → lean/Tcell/Gen, gen/), cmd/drive (correspondence + oracle)",
     "serves_properties": ["C08"]},
]
NOT_APPLICABLE = {}
META = {
    "C08": dict(
        technique="Lean 4 proof (induction over op histories with a specification ghost) + differential correspondence of the model with cell.go",
        text="Theorems in Tcell.Props.C08 prove, for every buffer size, coordinate, rune, style and op history, storage (get/set, ColorNone merge, out-of-range, frame, Fill, Resize overlap), the reported-width invariant and dirty soundness against a ghost written from the property text. The hand-written model of cell.go is tied to the code by running random histories on both and comparing every GetContent/Dirty; an independent shadow oracle checks the statement on the real buffer.",
        note="Trusted: Lean kernel, the model↔code correspondence (sampled), go-runewidth as regenerated table. Aliasing of the slice returned by GetContent is outside the model.",
    ),
}
