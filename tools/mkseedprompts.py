#!/usr/bin/env python3
"""Write the prompts of a seeding round: tools/mkseedprompts.py <round> → tools/seedprompts<round>/Cxx.txt.
A prompt holds ONLY the property record, the one-line summaries of the changes earlier rounds already tried (so that a new
round explores something else) and the rules of the exercise — nothing from /verif's checks, models or findings."""
import json, os, sys, glob
ROOT = os.path.dirname(os.path.dirname(os.path.abspath(__file__)))
rnd = int(sys.argv[1])
out = os.path.join(ROOT, "tools", f"seedprompts{rnd}")
os.makedirs(out, exist_ok=True)
ORD = {1: "FIRST", 2: "SECOND", 3: "THIRD", 4: "FOURTH", 5: "FIFTH", 6: "SIXTH"}
for l in open(os.path.join(ROOT, "properties.jsonl")):
    p = json.loads(l)
    pid = p["id"]
    wt, od = f"/tmp/seed{rnd}-{pid}", f"/tmp/seed{rnd}-{pid}-out"
    tried = []
    for d in sorted(glob.glob(os.path.join(ROOT, "seeded", pid + "-*"))):
        try:
            m = json.load(open(os.path.join(d, "meta.json")))
            tried.append("- " + " ".join(m.get("summary", "").split())[:300])
        except Exception:
            pass
    txt = f"""You are helping to evaluate a verification effort for the Go terminal library gdamore/tcell. Your job is to play "adversarial maintainer": write a realistic code change to tcell that BREAKS one semantic property while still compiling and passing the existing test suite, plus a demonstration of the breakage. You work ONLY in your own scratch git worktree of the library: {wt} (already created for you; it is a detached worktree of the repository). HARD RULES: never read, list or modify anything under /verif; never modify /repo itself; stay inside {wt} (and {od} for your deliverables). No network is available; use `export GOFLAGS=-mod=mod GOPROXY=off GOSUMDB=off GOTOOLCHAIN=local` before go commands.

THE PROPERTY ({pid}): {p['title']}
Statement: {p['statement']}
It quantifies over: {p['quantifier']['text']}
Why unit tests cannot settle it: {p['why_tests_cant']}
Where it lives in the code (anchors): {json.dumps({k: p['anchors'][k] for k in ('files', 'state', 'mechanism') if k in p['anchors']})}

ALREADY TRIED by other people (do NOT repeat these or close variants):
{chr(10).join(tried)}

This is the {ORD.get(rnd, str(rnd) + 'th')} round. Read the anchored code line by line, and ALSO the code around it that the anchors do not name but that the statement depends on (constructors, Init/engage/disengage, environment handling, package-level tables and registries, helper functions in other files, the other backends' shared code). Look for clauses of the statement that none of the attempts above touches. Prefer changes whose breakage shows only (a) through the library's real entry points used the way an application uses them (a live screen with its goroutines, a second screen in the same process, package-level state shared between objects) rather than through one function in isolation, (b) after a specific sequence of API calls (including Suspend/Resume, resize, lock/unlock, Register/Unregister, repeated Init/Fini, calls made while another call is in progress), (c) for particular environment variables, terminal descriptions, charsets or sizes, (d) at arithmetic or length boundaries, on error or early-return paths, or (e) through the interaction of two small edits in different functions or files.

WHAT TO PRODUCE — 2 independent changes (each on its own, against the pristine worktree HEAD), each one:
* a small, realistic edit to the library's non-test Go source (the kind of thing a plausible refactor, "optimisation", off-by-one, or incomplete bug fix would introduce) that makes the property FALSE;
* the library must still build (`go build ./...`) and the existing suite must still pass unedited (`go test -vet=off -count=1 ./...`);
* IMPORTANT: the breakage must need something specific to manifest — a particular interleaving, a multi-step sequence of operations, an unusual input, a particular terminal description/charset, a boundary size, or two cooperating sites that each look fine alone — NOT something that ordinary use would expose at once (do not simply delete the feature or make every call fail). Prefer subtle over blatant. The two changes should differ in kind and touch different functions.
* do NOT touch files guarded by the build tag `verif` (e.g. verif_hooks.go) and do not add build tags.
* a demonstration: a Go test file (or small program) placed in the worktree that FAILS with your change and PASSES without it (on pristine HEAD), using only the library's public API or, if unavoidable, package-internal access from an in-package _test.go file. Keep it deterministic (if it depends on timing, make a disturbed attempt inconclusive rather than failing).

DELIVERABLES: create directory {od}/1/ (and /2/) each containing:
  patch.diff   — `git diff` of the library change ONLY (not the demo), applicable with `git apply` at the worktree HEAD;
  demo_test.go (or demo/main.go) — the demonstration, plus `where.txt` saying the path it must be placed at inside the repo (e.g. `zz_demo_test.go` in the root package) and the exact command to run it (e.g. `go test -vet=off -count=1 -run TestDemo .`);
  meta.json    — {{"property":"{pid}","summary":"one sentence: what the change does","needs":"what specific input/sequence/schedule/config is needed for the breakage to manifest","files":["..."],"verified":{{"build":true,"suite_passes_with_change":true,"demo_fails_with_change":true,"demo_passes_without_change":true}}}}
Verify all four facts yourself before writing meta.json (run the commands; set a field false if you could not achieve it, and say why in "summary"). Leave the worktree clean (git checkout -- . ; remove your demo files) when done. Final answer: for each change, 3 lines: what it does, what it needs to manifest, and the four verification results.
NOTE: never use `git stash` (shared between worktrees); keep every temporary file inside your own directories ({wt} and {od}), other agents work in parallel. The repository HEAD already contains files guarded by the build tag `verif` and no-op `verifPoint(...)` calls: leave them alone (do not remove or move verifPoint lines; your patch must still build with `go build -tags verif ./...`)."""
    if pid == "C19":
        txt += "\nFor the WebAssembly backend: build with `GOOS=js GOARCH=wasm go build .`; tests run under Node 20 with `PATH=$(ls -d /root/.nvm/versions/node/v20*/bin | head -1):$PATH GOOS=js GOARCH=wasm go test -vet=off -count=1 -exec=\"$(go env GOROOT)/misc/wasm/go_js_wasm_exec\" -run <name> .` (in-package `_js_wasm_test.go` files with `//go:build js && wasm`)."
    open(os.path.join(out, pid + ".txt"), "w").write(txt + "\n")
print("wrote", out)
