#!/usr/bin/env python3
"""
Evaluate one seeded breaking change against the checks.

  tools/seedeval.py <seed-dir> <property>[,<property>…] [--tier quick|thorough] [--keep]

<seed-dir> holds patch.diff, the demonstration (demo_test.go / demo/…), where.txt and meta.json as delivered by an
independent sub-agent.  Steps (all in a scratch worktree of /repo outside /repo and /verif, removed afterwards):
  1. demonstration passes on the pristine tree,
  2. patch applies, `go build ./...` and the pinned suite (`go test -vet=off -count=1 ./...`) pass with it,
  3. the demonstration fails with it,
  4. `VERIF_REPO=<worktree> ./check <property> <tier>` is run from THIS checkout of /verif (use a clone of /verif when the
     main one is busy: the generated Lean files and harness binaries are per checkout) and its VIOLATION lines are recorded.
Prints a JSON summary (also stored as <seed-dir>/eval.json).  meta.json is expected to contain "demo_path" (where the
demonstration goes inside the repo) and "demo_cmd" (the command); both are filled in by hand from where.txt when a seed is adopted.
"""
import json, os, shutil, subprocess, sys, time

ROOT = os.path.dirname(os.path.dirname(os.path.abspath(__file__)))
GOENV = dict(os.environ, GOFLAGS="-mod=mod", GOPROXY="off", GOSUMDB="off", GOTOOLCHAIN="local")


def sh(cmd, cwd, env=None, timeout=3600):
    p = subprocess.run(cmd, cwd=cwd, env=env or GOENV, shell=isinstance(cmd, str), timeout=timeout,
                       stdout=subprocess.PIPE, stderr=subprocess.STDOUT, text=True)
    return p.returncode, p.stdout


def main():
    args = [a for a in sys.argv[1:] if not a.startswith("--")]
    seed, props = os.path.abspath(args[0]), args[1].split(",")
    tier = "thorough" if "--tier=thorough" in sys.argv or ("--tier" in sys.argv and "thorough" in sys.argv) else "quick"
    meta = json.load(open(os.path.join(seed, "meta.json")))
    wt = f"/tmp/seedeval-{os.getpid()}"
    res = {"seed": os.path.basename(seed), "properties": props, "tier": tier}
    sh(["git", "-C", "/repo", "worktree", "add", "--detach", wt], "/")
    try:
        demo_src = os.path.join(seed, meta["demo_file"])
        demo_dst = os.path.join(wt, meta["demo_path"])
        os.makedirs(os.path.dirname(demo_dst), exist_ok=True)
        shutil.copy(demo_src, demo_dst)
        rc, o = sh(meta["demo_cmd"], wt)
        res["demo_passes_without_change"] = rc == 0
        if rc != 0:
            res["demo_pristine_output"] = o[-1500:]
        rc, o = sh(["git", "apply", os.path.join(seed, "patch.diff")], wt)
        res["patch_applies"] = rc == 0
        if rc != 0:
            res["apply_output"] = o[-1500:]
            return res
        rc, o = sh(meta["demo_cmd"], wt)
        res["demo_fails_with_change"] = rc != 0
        os.remove(demo_dst)
        rc, o = sh("go build ./... && go test -vet=off -count=1 ./...", wt)
        res["suite_passes_with_change"] = rc == 0
        if rc != 0:
            res["suite_output"] = o[-1500:]
        res["checks"] = {}
        for p in props:
            t0 = time.time()
            rc, o = sh([os.path.join(ROOT, "check"), p, tier], ROOT, env=dict(os.environ, VERIF_REPO=wt), timeout=7200)
            viol = [l for l in o.split("\n") if l.startswith("VIOLATION")]
            res["checks"][p] = {"exit": rc, "violations": viol, "wall_s": round(time.time() - t0, 1),
                                "detected": rc != 0 and bool(viol),
                                "concrete": any("no-failing-input-found" not in v for v in viol)}
            # keep the replay files the check named (they live under replays/ of this checkout)
            for v in viol:
                for tok in v.split():
                    if tok.startswith("replay="):
                        rp = os.path.join(ROOT, tok[7:]) if not os.path.isabs(tok[7:]) else tok[7:]
                        if os.path.exists(rp):
                            shutil.copy(rp, os.path.join(seed, f"replay-{p}-" + os.path.basename(rp)))
        return res
    finally:
        if "--keep" not in sys.argv:
            sh(["git", "-C", "/repo", "worktree", "remove", "--force", wt], "/")
            sh(["git", "-C", "/repo", "worktree", "prune"], "/")
        json.dump(res, open(os.path.join(seed, "eval.json"), "w"), indent=1)
        print(json.dumps(res, indent=1))


if __name__ == "__main__":
    main()
