#!/usr/bin/env python3
"""Copy a sub-agent's deliverable (/tmp/seed-<P>-out/<n>) to seeded/<P>-<n>/ and normalise meta.json
(demo_file, demo_path, demo_cmd parsed from where.txt).  Usage: tools/seedadopt.py <P> <n> [<src-dir>]"""
import json, os, re, shutil, sys
ROOT = os.path.dirname(os.path.dirname(os.path.abspath(__file__)))
pid, n = sys.argv[1], sys.argv[2]
src = sys.argv[3] if len(sys.argv) > 3 else f"/tmp/seed-{pid}-out/{n}"
dst = os.path.join(ROOT, "seeded", f"{pid}-{n}")
os.makedirs(dst, exist_ok=True)
for f in os.listdir(src):
    p = os.path.join(src, f)
    if os.path.isdir(p):
        shutil.copytree(p, os.path.join(dst, f), dirs_exist_ok=True)
    else:
        shutil.copy(p, dst)
meta = json.load(open(os.path.join(dst, "meta.json")))
where = open(os.path.join(dst, "where.txt")).read()
m = re.search(r"(?:at|to|as)[: ]+`?([\w./-]+\.go)`?", where)
demo_path = m.group(1) if m else None
cmds = re.findall(r"(go (?:test|run) [^\n`]+)", where)
demo_cmd = cmds[-1].strip() if cmds else None
demo_file = next((f for f in os.listdir(dst) if f.endswith(".go")), None)
if demo_file is None and os.path.isdir(os.path.join(dst, "demo")):
    demo_file = "demo/main.go"
meta.update({"demo_file": demo_file, "demo_path": demo_path, "demo_cmd": demo_cmd})
json.dump(meta, open(os.path.join(dst, "meta.json"), "w"), indent=1)
print(dst, demo_file, "->", demo_path, "|", demo_cmd)
