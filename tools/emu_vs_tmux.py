#!/usr/bin/env python3
"""Validation aid (not part of any check): cross-checks the Lean ECMA-48 reference emulator against tmux, the one
independent terminal emulator present in the sandbox.  Random streams over the vocabulary both implement the xterm way
(text incl. wide and combining glyphs, CUP/CUU/CUD/CUF/CUB, CR LF BS, ED, EL, ICH, DCH, DECAWM, DECSC/DECRC, 1049, SGR)
are fed to a tmux pane and to `driver emu`; the visible text of every row and the cursor position must agree.

usage: tools/emu_vs_tmux.py [n_cases] [seed] [wide|sgr]      (needs ./check --setup to have built the driver)
"""
import os, random, subprocess, sys, time, tempfile

ROOT = os.path.dirname(os.path.dirname(os.path.abspath(__file__)))
DRIVER = os.path.join(ROOT, "lean", ".lake", "build", "bin", "driver")
GEN = os.path.join(ROOT, "gen")
SOCK = "emuK%d" % os.getpid()


def tmux(*a, **kw):
    return subprocess.run(["tmux", "-u", "-L", SOCK, "-f", "/dev/null"] + list(a), capture_output=True, **kw)


def gen_stream(r, w, h, wide):
    # Known, documented differences are avoided: DECSC while a wrap is pending (xterm saves the flag, tmux does not),
    # 1049l outside the alternate screen (xterm restores the saved cursor, tmux ignores it), one-line panes (tmux
    # does not scroll them).
    out = bytearray()
    alt = False
    saved = False
    am = True  # with DECAWM off tmux joins a combining mark to the cell left of the last column: no marks then
    maybe_pending = False  # tmux represents a pending wrap as cursor_x = width, so cursor-relative functions executed in
    # that state (ICH DCH ED EL BS CUx) act one column further right than in xterm: address the cursor first
    for _ in range(r.randint(1, 30)):
        k = r.randint(0, 19)
        if maybe_pending and k in (10, 11, 12, 13, 14, 15):
            out += b"\x1b[%d;%dH" % (r.randint(1, h), r.randint(1, w))
            maybe_pending = False
        if k < 7:
            maybe_pending = True
            for _ in range(r.randint(1, 6)):
                out += r.choice(["a", "b", "Z", "0", " ", "é", "世", "界", "x́", "-"] if wide else ["a", "b", "Z", "0", " ", "é", "x́" if am else "x", "-", "q"]).encode()
        elif k < 10:
            out += b"\x1b[%d;%dH" % (r.randint(0, h + 1), r.randint(0, w + 1))
        elif k == 10:
            out += b"\x1b[%s%s" % (r.choice([b"", b"1", b"2", b"9"]), r.choice([b"A", b"B", b"C", b"D"]))
        elif k == 11:
            # BS at column 0 reverse-wraps in tmux (not in xterm without ?45): only use it away from column 0
            out += r.choice([b"\r", b"\r\n", b"\x1b[%d;%dH\b" % (r.randint(1, h), r.randint(2, max(2, w)))])
        elif k == 12:
            out += b"\x1b[%sJ" % r.choice([b"", b"0", b"1", b"2"])
        elif k == 13:
            out += b"\x1b[%sK" % r.choice([b"", b"0", b"1", b"2"])
        elif k in (14, 15) and not wide:
            # tmux 3.3a ICH blanks only as many cells as it moves (and none when the count reaches the margin):
            # keep 2*count within the rest of the line
            c = r.randint(1, w)
            if (w - c + 1) // 2 >= 1:
                out += b"\x1b[%d;%dH\x1b[%d%s" % (r.randint(1, h), c, r.randint(1, (w - c + 1) // 2), b"@" if k == 14 else b"P")
        elif k == 16 and not wide:
            am = r.random() < 0.5
            out += b"\x1b[?7h" if am else b"\x1b[?7l"
        elif k == 17:
            if saved and r.random() < 0.5:
                out += b"\x1b8"
            else:
                out += b"\x1b[%d;%dH\x1b7" % (r.randint(1, h), r.randint(1, w))
                saved = True
        elif k == 18:
            out += b"\x1b[?1049l" if alt else b"\x1b[%d;%dH\x1b[?1049h" % (r.randint(1, h), r.randint(1, w))
            alt = not alt
            saved = False
        else:
            out += r.choice([b"\x1b[1m", b"\x1b[m", b"\x1b[31;42m", b"\x1b[38;5;99m", b"\x1b[7m", b"\x1b[4m", b"\x1b[39;49m"])
    return bytes(out)


def run_tmux(stream, w, h):
    with tempfile.NamedTemporaryFile(delete=False) as f:
        f.write(stream)
        path = f.name
    tmux("kill-server")
    tmux("start-server", ";", "set", "-g", "status", "off", ";", "set", "-g", "default-terminal", "screen", ";",
         "new-session", "-d", "-x", str(w), "-y", str(h), "stty raw -echo; cat %s; sleep 30" % path)
    time.sleep(0.15)
    for _ in range(20):
        p = tmux("display-message", "-p", "-t", "0", "#{cursor_x} #{cursor_y} #{pane_width} #{pane_height}")
        f = p.stdout.decode().split()
        if len(f) == 4:
            break
        time.sleep(0.1)
    cap = tmux("capture-pane", "-p", "-t", "0").stdout.decode("utf-8", "replace").split("\n")
    tmux("kill-server")
    os.unlink(path)
    if len(f) != 4:
        return (0, 0), [], (0, 0)
    cx, cy, pw, ph = map(int, f)
    rows = [(cap[i] if i < len(cap) else "").rstrip(" ") for i in range(h)]
    return (cx, cy), rows, (pw, ph)


def run_emu(stream, w, h):
    line = "emu %d %d 1 1 acs:- W %s\n" % (w, h, stream.hex() or "-")
    out = subprocess.run([DRIVER, GEN], input=line.encode(), capture_output=True).stdout.decode().strip()
    f = dict(t.split("=", 1) for t in out.split(" cells=")[0].split(" ") if "=" in t)
    cells = out.split(" cells=")[1].split(" ")
    cx, cy = map(int, f["cursor"].split(","))
    am = "am:1" in f["modes"]
    if f["wrap"] == "1":
        cx += 1  # tmux reports a pending wrap as cursor_x = width
    rows = []
    for y in range(h):
        s = ""
        for x in range(w):
            c = cells[y * w + x]
            if c == ".":
                s += " "
                continue
            runes, pen, flags, stamp = c.split("/")
            if "c" in flags:
                continue
            s += " " if runes == "-" else "".join(chr(int(v)) for v in runes.split(","))
        rows.append(s.rstrip(" "))
    return (cx, cy), rows, am


SGRS = [b"0", b"", b"1", b"2", b"3", b"4", b"5", b"7", b"9", b"21", b"22", b"23", b"24", b"25", b"27", b"29", b"31", b"32;44", b"39", b"49",
        b"39;49", b"90", b"97;100", b"105", b"38;5;3", b"38;5;12", b"38;5;200", b"48;5;17", b"38;2;1;2;3", b"48;2;250;128;0",
        b"38:5:77", b"48:2::9:8:7", b"4:0", b"4:1", b"4:2", b"4:3", b"4:4", b"4:5", b"58:5:99", b"58:2::10:20:30", b"59",
        b"1;3;4", b"0;7", b"1;38;5;9;4", b"38;2;255;255;255;48;5;0"]


def pens_of(stream, w, h):
    """pens of the non-blank cells according to the emulator"""
    line = "emu %d %d 1 1 acs:- W %s\n" % (w, h, stream.hex() or "-")
    out = subprocess.run([DRIVER, GEN], input=line.encode(), capture_output=True).stdout.decode().strip()
    cells = out.split(" cells=")[1].split(" ")
    res = {}
    for i, c in enumerate(cells):
        if c == ".":
            continue
        runes, pen, flags, stamp = c.split("/")
        if runes not in ("-", "32"):
            res[(i % w, i // w)] = (runes, pen.rsplit(",", 1)[0])
    return res


def sgr_main(n, seed):
    """pens: SGR sequences interleaved with glyphs; tmux's own rendering of each line (capture-pane -e) is read back
    through the emulator and the pens of the glyph cells are compared"""
    r = random.Random(seed)
    bad = 0
    for i in range(n):
        w, h = 24, 3
        s = bytearray()
        for k in range(r.randint(3, 20)):
            s += b"\x1b[" + r.choice(SGRS) + b"m" + bytes([r.randint(0x41, 0x5a)])
        s = bytes(s)
        with tempfile.NamedTemporaryFile(delete=False) as f:
            f.write(s)
            path = f.name
        tmux("kill-server")
        tmux("start-server", ";", "set", "-g", "status", "off", ";", "set", "-g", "default-terminal", "tmux-256color", ";",
             "new-session", "-d", "-x", str(w), "-y", str(h), "stty raw -echo; cat %s; sleep 30" % path)
        time.sleep(0.25)
        cap = tmux("capture-pane", "-p", "-e", "-t", "0").stdout.split(b"\n")
        tmux("kill-server")
        os.unlink(path)
        want = pens_of(s, w, h)
        got = {}
        for y in range(h):
            row = cap[y] if y < len(cap) else b""
            for (x, _), v in pens_of(row, w, 1).items():
                got[(x, y)] = v
        if want != got:
            bad += 1
            print("DIFF case %d stream %r" % (i, s))
            for k in sorted(set(want) | set(got)):
                if want.get(k) != got.get(k):
                    print("   cell", k, "emu", want.get(k), "tmux", got.get(k))
    print("sgr cases=%d differences=%d" % (n, bad))
    return 1 if bad else 0


def main():
    if len(sys.argv) > 3 and sys.argv[3] == "sgr":
        return sgr_main(int(sys.argv[1]), int(sys.argv[2]))
    n = int(sys.argv[1]) if len(sys.argv) > 1 else 100
    seed = int(sys.argv[2]) if len(sys.argv) > 2 else 1
    wide = len(sys.argv) > 3 and sys.argv[3] == "wide"
    r = random.Random(seed)
    bad = 0
    for i in range(n):
        w, h = r.choice([(10, 4), (5, 3), (2, 2), (20, 5), (8, 2), (3, 3)])
        s = gen_stream(r, w, h, wide)
        tc, trows, tsz = run_tmux(s, w, h)
        if tsz != (w, h):
            print("tmux pane size", tsz, "wanted", (w, h), "- skipped")
            continue
        ec, erows, am = run_emu(s, w, h)
        if not am:  # with DECAWM off tmux still parks the cursor at x = width; there is no pending wrap to compare
            tc = (min(tc[0], w - 1), tc[1])
        if tc != ec or trows != erows:
            bad += 1
            print("DIFF case %d size %dx%d stream %r" % (i, w, h, s))
            print("  tmux cursor", tc, "rows", trows)
            print("  emu  cursor", ec, "rows", erows)
    print("cases=%d differences=%d" % (n, bad))
    return 1 if bad else 0


if __name__ == "__main__":
    sys.exit(main())
