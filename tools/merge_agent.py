#!/usr/bin/env python3
"""Merge a contributor clone's main branch: union known_findings.json, regenerate MANIFEST.json."""
import json, subprocess, sys, os
ROOT = os.path.dirname(os.path.dirname(os.path.abspath(__file__)))
os.chdir(ROOT)
a = sys.argv[1]
def sh(*c, check=False):
    return subprocess.run(c, capture_output=True, text=True)
sh("git", "remote", "add", "wk" + a, f"/tmp/wk-{a}/verif")
sh("git", "fetch", "-q", "wk" + a)
r = sh("git", "merge", "--no-edit", f"wk{a}/main")
st = sh("git", "status", "--short").stdout
conf = [l[3:] for l in st.split("\n") if l[:2] in ("UU", "AA", "DU", "UD")]
def stage(n, path):
    o = sh("git", "show", f":{n}:{path}").stdout
    try:
        return json.loads(o)
    except Exception:
        return None
left = []
for p in conf:
    if p == "known_findings.json":
        ours, theirs = stage(2, p) or {"findings": []}, stage(3, p) or {"findings": []}
        ids = {f["id"] for f in ours["findings"]}
        for f in theirs["findings"]:
            if f["id"] not in ids:
                ours["findings"].append(f)
        json.dump(ours, open(p, "w"), indent=1)
        sh("git", "add", p)
    elif p == "MANIFEST.json" or p.startswith("evidence/"):
        sh("git", "checkout", "--theirs", p) if p.startswith("evidence/") else None
        sh("git", "add", p)
    else:
        left.append(p)
subprocess.run([sys.executable, "tools/mkmanifest.py"])
sh("git", "add", "MANIFEST.json")
print("merge output:", r.stdout[-500:], r.stderr[-300:])
print("unresolved:", left)
if not left:
    print(sh("git", "commit", "-qm", f"Merge contributor {a}").stderr)
