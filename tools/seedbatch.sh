#!/bin/bash
# usage: runbatch.sh <logname> <seed>:<prop> ...
cd /tmp/ev/verif || exit 1
git checkout -q -- . ; git pull -q
./check --setup > /tmp/ev/setup_last.log 2>&1
log=/tmp/ev/$1.log; shift
: > $log
for sp in "$@"; do
  s=${sp%%:*}; p=${sp##*:}
  python3 tools/seedeval.py /verif/seeded/$s $p > /tmp/ev/$s.log 2>&1
  cp /verif/seeded/$s/eval.json /verif/seeded/$s/eval-$p.json
  python3 - "$s" "$p" >> $log <<'PY'
import json,sys
s,p=sys.argv[1],sys.argv[2]
r=json.load(open(f'/verif/seeded/{s}/eval.json'))
out=[]
for q,c in r.get('checks',{}).items():
    out.append(f"{q}:detected={c.get('detected')},concrete={c.get('concrete')},{c.get('wall_s')}s")
print(s,'pristine_ok',r.get('demo_passes_without_change'),'demo_fails',r.get('demo_fails_with_change'),'suite',r.get('suite_passes_with_change'),' '.join(out))
PY
done
