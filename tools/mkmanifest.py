#!/usr/bin/env python3
"""Regenerates MANIFEST.json from lib/props.py (claimed checks) and lib/manifest_meta.py (texts)."""
import json, os, sys
ROOT = os.path.dirname(os.path.dirname(os.path.abspath(__file__)))
sys.path.insert(0, os.path.join(ROOT, "lib"))
from props import PROPS, META
from manifest_meta import NOT_APPLICABLE, ENGINES, HOOK_COMMITS

props = [json.loads(l) for l in open(os.path.join(ROOT, "properties.jsonl"))]
checks = []
for p in props:
    pid = p["id"]
    if pid not in PROPS:
        continue
    m = META[pid]
    checks.append({
        "property_id": pid,
        "quick_cmd": f"./check {pid} quick",
        "thorough_cmd": f"./check {pid} thorough",
        "evidence_file": f"evidence/{pid}.json",
        "replay_cmd_template": f"./check {pid} --replay {{path}}",
        "engine": m.get("engine", "lean+harness"),
        "level_claimed": {"category": PROPS[pid].get("level", "proof"), "text": m["text"], "design_ref": m.get("design_ref", "DESIGN.md §5 " + pid)},
        "level_note": m["note"],
        "technique": m["technique"],
    })
na = [{"property_id": p["id"], "reason": NOT_APPLICABLE.get(p["id"], "check not built yet in this round; planned in DESIGN.md §5 (no claim is made until the check exists)")}
      for p in props if p["id"] not in PROPS]
man = {
    "version": 1,
    "setup_cmd": "./check --setup",
    "hooks": {
        "guard": "verif",
        "enable": "go build -tags verif (the harness module is built with -tags verif against a replace of /repo)",
        "baseline_off_cmd": "cd /repo && go build ./... && go test -vet=off -count=1 ./...",
        "source_commits": HOOK_COMMITS,
        "add_only": True,
    },
    "engines": ENGINES,
    "checks": checks,
    "not_applicable": na,
    "notes": "Single entry point ./check; VERIF_SEED seeds the one PRNG, VERIF_REPO (default /repo) selects the tree, VERIF_TIER is honoured when the tier argument is omitted. See DESIGN.md.",
}
json.dump(man, open(os.path.join(ROOT, "MANIFEST.json"), "w"), indent=1)
print("checks:", [c["property_id"] for c in checks], "not_applicable:", [n["property_id"] for n in na])
